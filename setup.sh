#!/bin/sh
# Build the verifier from files on disk only (offline) and warm the Go build cache
# for the packages under contract.
set -e
cd "$(dirname "$0")"
export GOFLAGS=-mod=mod GOPROXY=off
mkdir -p bin evidence replays .work
(cd engine && go build -o ../bin/govc .)
# warm the type-check / build cache of the packages under contract (cold load is ~70 s)
(cd /repo && go build -tags verif ./... >/dev/null 2>&1 || true)
(cd /repo && go vet -tags verif ./internal/encoding >/dev/null 2>&1 || true)
echo setup ok
