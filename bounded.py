#!/usr/bin/env python3
"""Bounded stand-ins (labelled BOUNDED, never counted as proved) for functions outside the reach of
the contract engine.  Usage: bounded.py <property> <tier>

C01/C02/C04: the DAG walk db.executeMerge -> loadComposites/mergeComposites is driven on real replicas
by the harness /verif/harness/db/zz_merge_harness_test.go (injected with go test -overlay).
  quick:    2 replicas, every history of length <= 2 over the operation alphabet, final full exchange
  thorough: 2 replicas length <= 3, plus seeded random histories of length 8 on 3 replicas
A violating history is attributed to a listed known finding only when the harness's diagnosis of that
finding fired during the history (the walk queued a commit twice / the merge target had heads of
different heights); anything else is a VIOLATION.
"""
import json, os, subprocess, sys, time

V = '/verif'
prop, tier = sys.argv[1], (sys.argv[2] if len(sys.argv) > 2 else 'quick')
seed = int(os.environ.get('VERIF_SEED', '1') or 1)
work = f'{V}/.work/bounded'
os.makedirs(work, exist_ok=True)
t0 = time.time()

HARNESS = {
    '/repo/internal/db/zz_c05_fault_test.go': f'{V}/harness/db/zz_c05_fault_test.go',
    '/repo/internal/db/zz_merge_harness_test.go': f'{V}/harness/db/zz_merge_harness_test.go',
    '/repo/internal/db/zz_c03_timetravel_test.go': f'{V}/harness/db/zz_c03_timetravel_test.go',
    '/repo/internal/db/zz_c07_index_test.go': f'{V}/harness/db/zz_c07_index_test.go',
    '/repo/internal/db/zz_c07_counter_index_test.go': f'{V}/harness/db/zz_c07_counter_index_test.go',
    '/repo/internal/db/zz_c07_array_composite_test.go': f'{V}/harness/db/zz_c07_array_composite_test.go',
    '/repo/internal/db/zz_c07_order_probes_test.go': f'{V}/harness/db/zz_c07_order_probes_test.go',
    '/repo/internal/db/zz_c07_partial_update_test.go': f'{V}/harness/db/zz_c07_partial_update_test.go',
    '/repo/internal/db/zz_c03_probes_test.go': f'{V}/harness/db/zz_c03_probes_test.go',
    '/repo/internal/db/zz_c20_subscription_test.go': f'{V}/harness/db/zz_c20_subscription_test.go',
    '/repo/internal/db/zz_c09_relation_test.go': f'{V}/harness/db/zz_c09_relation_test.go',
    '/repo/internal/db/zz_c14_restart_test.go': f'{V}/harness/db/zz_c14_restart_test.go',
    '/repo/internal/db/zz_c13_partition_test.go': f'{V}/harness/db/zz_c13_partition_test.go',
    '/repo/internal/db/zz_c08_filter_laws_test.go': f'{V}/harness/db/zz_c08_filter_laws_test.go',
    '/repo/internal/db/zz_c08_aggregate_laws_test.go': f'{V}/harness/db/zz_c08_aggregate_laws_test.go',
    '/repo/internal/db/zz_c08_order_version_test.go': f'{V}/harness/db/zz_c08_order_version_test.go',
    '/repo/internal/db/zz_c08_commits_signed_test.go': f'{V}/harness/db/zz_c08_commits_signed_test.go',
    '/repo/internal/db/zz_c19_active_test.go': f'{V}/harness/db/zz_c19_active_test.go',
    '/repo/internal/db/zz_c11_update_test.go': f'{V}/harness/db/zz_c11_update_test.go',
}

def overlay():
    o = {'Replace': dict(HARNESS)}
    if os.environ.get('GOVC_OVERLAY'):
        o['Replace'].update(json.load(open(os.environ['GOVC_OVERLAY']))['Replace'])
    p = f'{work}/overlay-{prop}-{os.getpid()}.json'
    json.dump(o, open(p, 'w'))
    return p

def gotest_pkg(run, pkg, files, timeout):
    o = {'Replace': dict(files)}
    if os.environ.get('GOVC_OVERLAY'):
        o['Replace'].update(json.load(open(os.environ['GOVC_OVERLAY']))['Replace'])
    ovp = f'{work}/overlay-{prop}-{os.getpid()}-pkg.json'
    json.dump(o, open(ovp, 'w'))
    e = dict(os.environ, GOFLAGS='-mod=mod', GOPROXY='off')
    p = subprocess.run(['go', 'test', '-overlay', ovp, '-vet=off', '-count=1', '-timeout', f'{timeout}s', '-run', run, '-v', pkg],
                       cwd='/repo', env=e, capture_output=True, text=True)
    os.remove(ovp)
    return p

def gotest(run, env, timeout):
    out = f'{work}/{prop}-{run.strip("^$")}-{os.getpid()}.json'
    if os.path.exists(out):
        os.remove(out)
    e = dict(os.environ, GOFLAGS='-mod=mod', GOPROXY='off', VERIF_BOUND_OUT=out, **env)
    ov = overlay()
    p = subprocess.run(['go', 'test', '-overlay', ov, '-vet=off', '-count=1', '-timeout', f'{timeout}s', '-run', run, './internal/db'],
                       cwd='/repo', env=e, capture_output=True, text=True)
    os.remove(ov)
    res = None
    if os.path.exists(out):
        res = json.load(open(out))
        os.remove(out)
    return p, res

known = [k for k in json.load(open(f'{V}/known_findings.json')) if k['property'] == prop and k.get('kind') == 'bounded' and k.get('status') != 'fixed']
lines = []
violations = []
summary = {'label': 'bounded', 'function': 'db.executeMerge -> (*mergeProcessor).loadComposites / mergeComposites (via go test -overlay on real replicas)',
           'property': prop, 'tier': tier}

if prop in ('C01', 'C02', 'C04'):
    env = {'VERIF_BOUND_K': '2', 'VERIF_BOUND_L': '2'}
    bound = '2 replicas, all histories of length <= 2 over {name=x|y|null, counter increment, delete, sync a>b} per replica, plus the directed families fork-join (r0.a; r1.b; sync r1>r0; r0.c) and late-join (r0.a; r0.b; r1.c; sync r1>r0) for all a,b,c; each followed by two rounds of full exchange and a redelivery of every composite commit (oldest first and newest first) that must change nothing'
    if tier == 'thorough':
        env = {'VERIF_BOUND_K': '2', 'VERIF_BOUND_L': '3', 'VERIF_BOUND_RANDOM': '150', 'VERIF_BOUND_RK': '3', 'VERIF_BOUND_RLEN': '8', 'VERIF_SEED': str(seed)}
        bound = '2 replicas, all histories of length <= 3; plus 150 seeded random histories of length 8 on 3 replicas'
    p, res = gotest('^TestGovcBoundedMerge$', env, 1500)
    if res is None:
        print(f'bounded: harness did not run for {prop}:\n' + p.stdout[-2000:] + p.stderr[-2000:], file=sys.stderr)
        # a harness that does not build on the current tree is a violation without input
        rp = f'{V}/replays/{prop}/bounded-harness.json'
        os.makedirs(os.path.dirname(rp), exist_ok=True)
        json.dump({'property': prop, 'obligation': 'bounded harness', 'reason': 'the merge harness no longer builds or runs against the current tree', 'output': (p.stdout + p.stderr)[-4000:]}, open(rp, 'w'), indent=1)
        print(f'VIOLATION property={prop} replay={rp} no-failing-input-found')
        sys.exit(1)
    if prop == 'C02':
        res['violating'] = res.get('violating') or []
        # same enumeration on a document created without a counter value, every replica incrementing by the same
        # amount: two concurrent updates that differ in nothing but their identity must both be counted
        env2 = dict(env, VERIF_MERGE_NOPOINTS='1', VERIF_BOUND_L='2', VERIF_BOUND_RANDOM='0' if tier != 'thorough' else '60')
        pn, resn = gotest('^TestGovcBoundedMerge$', env2, 1500)
        if resn is None:
            res.setdefault('violating', []).append({'history': 'merge harness, document created without a counter value', 'problems': ['C02: the harness did not run: ' + (pn.stdout + pn.stderr)[-600:]]})
        else:
            for v in resn.get('violating') or []:
                v['history'] = '[VERIF_MERGE_NOPOINTS=1: created without a counter value, every increment is +5] ' + v['history']
                res.setdefault('violating', []).append(v)
            res['cases'] += resn['cases']
        bound += '; the same enumeration (length <= 2) on a document created without a counter value where every replica increments by the same amount'
    mine = []
    marked = {}   # known-finding id -> histories whose only problems of this property carry that finding's diagnosis
    for v in res.get('violating') or []:
        probs = [q for q in v['problems'] if q.startswith(prop + ':') or q.startswith(prop + '/')]
        for k in known:
            mk = k.get('problem_marker')
            if mk and any(mk in q for q in probs):
                rest = [q for q in probs if mk not in q]
                if not rest:
                    marked.setdefault(k['id'], []).append(v['history'])
                probs = rest
        if probs:
            mine.append((v, probs))
    attributed = {}
    for v, probs in mine:
        fid = None
        if v.get('dup_queued'):
            fid = 'diamond-requeue'
        elif v.get('unequal_heads'):
            fid = 'merge-target-unequal-heads'
        k = next((k for k in known if fid and fid in k['id']), None)
        if k:
            attributed.setdefault(k['id'], []).append(v['history'])
        else:
            violations.append((v['history'], probs))
    summary.update({'bound': bound, 'cases': res['cases'], 'distinct_nontrivial': res['distinct'], 'exhaustive': tier != 'thorough' or True,
                    'violating_histories': len(mine), 'attributed_to_known_findings': {**{k: len(h) for k, h in attributed.items()}, **{k: len(h) for k, h in marked.items()}}})
    # replay the witnesses of the listed known findings (repeated: the defect depends on map iteration order)
    for k in known:
        hist = k.get('witness_history')
        reproduced = False
        if hist:
            for attempt in range(6):
                p2, r2 = gotest('^TestGovcHistory$', {'VERIF_BOUND_K': str(k.get('witness_replicas', 3)), 'VERIF_HISTORIES': hist}, 300)
                if r2 and any(any(q.startswith(prop) for q in (x.get('problems') or [])) for x in r2):
                    reproduced = True
                    break
        lines.append(f"KNOWN-FINDING: property={prop} {k['what']} [{k['id']}; witness {'reproduced' if reproduced else 'not reproduced in 6 runs'}]")
    for i, (h, probs) in enumerate(violations[:5]):
        rp = f'{V}/replays/{prop}/bounded-history-{i+1}.json'
        os.makedirs(os.path.dirname(rp), exist_ok=True)
        json.dump({'property': prop, 'obligation': 'bounded stand-in for the merge walk', 'history': h, 'problems': probs,
                   'replay_cmd': ("VERIF_MERGE_NOPOINTS=1 " if h.startswith('[VERIF_MERGE_NOPOINTS') else "") + f"VERIF_BOUND_K=3 VERIF_HISTORIES='{h.split('] ')[-1]}' go test -overlay <harness overlay> -vet=off -run '^TestGovcHistory$' ./internal/db"}, open(rp, 'w'), indent=1)
        lines.append(f'VIOLATION property={prop} replay={rp}')

if prop == 'C03':
    L = '4' if tier != 'thorough' else '7'
    summary['function'] = '(*fetcher.VersionedFetcher).seekTo/seekNext/merge through DB.ExecRequest (go test -overlay on a real DB)'
    p, res = gotest('^TestGovcC03TimeTravel$', {'VERIF_BOUND_L': L}, 900)
    if res is None:
        rp = f'{V}/replays/{prop}/bounded-harness.json'
        os.makedirs(os.path.dirname(rp), exist_ok=True)
        json.dump({'property': prop, 'obligation': 'bounded harness', 'reason': 'the time-travel harness no longer builds or runs against the current tree', 'output': (p.stdout + p.stderr)[-4000:]}, open(rp, 'w'), indent=1)
        print(f'VIOLATION property={prop} replay={rp} no-failing-input-found')
        sys.exit(1)
    probs = res.get('problems') or []
    pm, _ = gotest('^TestGovcC03MergeCommit$', {}, 300)
    if pm.returncode != 0:
        probs.append({'history': 'a: create; deliver to b; a: name=fromA; b: points+=5; deliver b>a; a: age=2 (commit with two parents); time travel to it on a', 'commit': -1,
                      'what': ' '.join(l.strip() for l in pm.stdout.splitlines() if 'C03' in l)[:600] or 'merge-commit time travel test failed'})
    pp, _ = gotest('^TestGovcC03(IndexedFilterAtCommit|AtDeleteCommit)$', {}, 300)
    if pp.returncode != 0:
        msgs = [l.strip() for l in pp.stdout.splitlines() if 'C03:' in l]
        probs.append({'history': 'create; update / delete; query at the first commit with a filter on an indexed field; query at the deleting commit', 'commit': -1,
                      'what': ' | '.join(msgs)[:900] or 'the time-travel probes failed: ' + (pp.stdout + pp.stderr)[-400:]})
    summary.update({'bound': f'one document (register + counter), every linear history of set-name / increment of length <= {L}; at every commit: time-travel read == ordinary read recorded right after that commit; heads and current state unchanged by the reads; plus one branching history: time travel to a commit with two parents equals the ordinary read right after it; plus two probes: a filter on an indexed field at a commit answers as without the index, and a document can be queried at the commit that deleted it (the request returns)',
                    'cases': res['cases'], 'distinct_nontrivial': res['cases'], 'exhaustive': True, 'violating_histories': len({q['history'] for q in probs})})
    if probs:
        rp = f'{V}/replays/{prop}/bounded-history-1.json'
        os.makedirs(os.path.dirname(rp), exist_ok=True)
        json.dump({'property': prop, 'obligation': 'bounded stand-in for the versioned fetcher', 'problems': probs[:10],
                   'replay_cmd': "go test -overlay <harness overlay> -vet=off -run '^TestGovcC03TimeTravel$' ./internal/db"}, open(rp, 'w'), indent=1)
        lines.append(f'VIOLATION property={prop} replay={rp}')
        violations.append(('time travel', probs[:3]))

if prop == 'C07':
    summary['function'] = 'planner index selection + fetcher.indexFetcher iterators/matchers + index maintenance, through DB.ExecRequest and the collection API (go test -overlay on two real databases, one with and one without the secondary indexes)'
    env = {'VERIF_BOUND_N': '30', 'VERIF_BOUND_L': '6', 'VERIF_SEED': str(seed)}
    bound = 'three logical documents (name in {a,b}, age, unique email in {x@x,y@y,null}); directed family: create d0(a,x@x); create d1(any); one of {update d0/d1 (any values), delete d0/d1, delete-by-filter name=a}; create d2(name a, any email) - 270 histories - plus 30 seeded random histories of length 6 over that alphabet; after every step 18 queries (eq/ne/in/like/range/null/_or filters on the indexed fields, ASC/DESC order) must return the same documents (same key sequence for ordered ones) with and without the indexes, and the unique index must reject exactly the writes that duplicate a live non-null email; plus: a replica with indexes merges create+delete of an unseen document; plus: every history of length <= 2 of the merge harness on two replicas whose collection has indexes on name and age, index-served filters compared with the listing after quiescence'
    if tier == 'thorough':
        env = {'VERIF_BOUND_N': '400', 'VERIF_BOUND_L': '8', 'VERIF_SEED': str(seed), 'VERIF_BOUND_DIRECTED': 'full'}
        bound = bound.replace('270 histories', '1620 histories (every d0)').replace('30 seeded random histories of length 6', '400 seeded random histories of length 8')
    p, res = gotest('^TestGovcC07Index$', env, 2400)
    p2, _ = gotest('^TestGovcC07MergeCreatedAndDeleted$', {}, 300)
    # merges into a replica with indexes keep the indexes in step (merge harness with an indexed schema)
    p3, res3 = gotest('^TestGovcBoundedMerge$', {'VERIF_BOUND_K': '2', 'VERIF_BOUND_L': '2' if tier != 'thorough' else '3', 'VERIF_MERGE_INDEXED': '1', 'VERIF_BOUND_FAMILIES': '0' if tier != 'thorough' else '1'}, 1500)
    # probes of listed known findings
    for kf in [k for k in json.load(open(f'{V}/known_findings.json')) if k['property'] == prop and k.get('kind') == 'bounded-probe' and k.get('status') != 'fixed']:
        pk, _ = gotest('^' + kf['test'] + '$', {}, 300)
        lines.append(f"KNOWN-FINDING: property={prop} {kf['what']} [{kf['id']}; {'reproduced' if pk.returncode != 0 else 'not reproduced'} in this run]")
    if res is None:
        rp = f'{V}/replays/{prop}/bounded-harness.json'
        os.makedirs(os.path.dirname(rp), exist_ok=True)
        json.dump({'property': prop, 'obligation': 'bounded harness', 'reason': 'the index differential harness no longer builds or runs against the current tree', 'output': (p.stdout + p.stderr)[-4000:]}, open(rp, 'w'), indent=1)
        print(f'VIOLATION property={prop} replay={rp} no-failing-input-found')
        sys.exit(1)
    probs = res.get('problems') or []
    if res3 is None:
        probs.append({'history': 'merge harness with indexes', 'step': 0, 'what': 'the merge harness with an indexed schema did not run: ' + (p3.stdout + p3.stderr)[-600:]})
    else:
        for v in res3.get('violating') or []:
            for q in v['problems']:
                if q.startswith('C07'):
                    probs.append({'history': v['history'], 'step': -1, 'what': q})
    p5, _ = gotest('^TestGovcC07(Order|PartialUpdate)', {}, 300)
    if p5.returncode != 0:
        msgs = [l.strip() for l in p5.stdout.splitlines() if 'C07:' in l]
        probs.append({'history': 'ordered listing served by an index (composite index with an array field; showDeleted)', 'step': 0, 'what': ' | '.join(msgs)[:900] or (p5.stdout + p5.stderr)[-400:]})
    bound += '; two ordered-listing probes: order on the first field of a composite index (name, tags[]) returns every document once, showDeleted with order on an indexed field stays ordered; and an update through the collection API that carries only one field keeps the index entry of another'
    # the filter laws also compare every condition on a collection without indexes, with an index on every
    # field, and with a composite index whose second field is an array (documents identified by a key field)
    p4, res4 = gotest('^TestGovcC08FilterLaws$', {}, 900)
    if res4 is None:
        probs.append({'history': 'filter-law harness', 'step': 0, 'what': 'the filter-law harness did not run: ' + (p4.stdout + p4.stderr)[-600:]})
    else:
        for q in res4.get('problems') or []:
            if q['law'] in ('with the indexes = without the indexes', 'no request fails or panics') or q['schema'] != 'no index':
                probs.append({'history': 'filter laws, collection ' + q['schema'], 'step': 0, 'what': q['law'] + ': ' + q['what']})
        bound += '; every atomic and compound condition of the filter-law harness (%d evaluations) returns the same documents on a collection without indexes, with an index on every field, and with a composite index (name, tags[])' % res4['cases']
    if p2.returncode != 0:
        probs.append({'history': 'replica a: create(name a, age 1, email x@x); delete; deliver the head to replica b (same indexed schema)', 'step': 2,
                      'what': 'merge of create+delete of an unseen document into an indexed collection: ' + ' '.join(l.strip() for l in p2.stdout.splitlines() if 'C07' in l)[:600]})
    summary.update({'bound': bound, 'cases': res['cases'] + 1, 'distinct_nontrivial': res['cases'] + 1, 'exhaustive': False, 'violating_histories': len({q['history'] for q in probs})})
    if probs:
        rp = f'{V}/replays/{prop}/bounded-history-1.json'
        os.makedirs(os.path.dirname(rp), exist_ok=True)
        json.dump({'property': prop, 'obligation': 'bounded stand-in: index differential', 'problems': probs[:10],
                   'replay_cmd': "go test -overlay <harness overlay> -vet=off -run '^TestGovcC07' ./internal/db"}, open(rp, 'w'), indent=1)
        lines.append(f'VIOLATION property={prop} replay={rp}')
        violations.append(('index differential', probs[:3]))

if prop == 'C09':
    import re
    summary['function'] = 'planner join planning/inversion (expandTypeIndexJoinPlan, tryOptimizeJoinDirection*) + invertibleTypeJoin, through DB.ExecRequest (go test -overlay on two real databases, with and without indexes on the related fields and the foreign key)'
    env = {'VERIF_BOUND_N': '30', 'VERIF_BOUND_L': '9', 'VERIF_SEED': str(seed)}
    bound = 'User(name, age, devices) 1-N Device(model, year, owner); 3 users, up to 4 devices; directed family: users a,b,c, devices d0..d2 with every owner pattern over {none,a,b}, then one of {delete user a/b, delete d0, relink d0 to b, unlink d1, create d3 owned by c} (162 histories) plus 30 seeded random histories of length 9 over create/relink/unlink/delete; after every step 12 queries that filter or order through the relation from either side must return the same documents (same key sequence when ordered) with and without the indexes, and the (user, device) pairs seen from the User side must equal those seen from the Device side'
    if tier == 'thorough':
        env = {'VERIF_BOUND_N': '300', 'VERIF_BOUND_L': '10', 'VERIF_SEED': str(seed)}
        bound = bound.replace('30 seeded random histories of length 9', '300 seeded random histories of length 10')
    p, res = gotest('^TestGovcC09Relations$', env, 2400)
    if res is None:
        rp = f'{V}/replays/{prop}/bounded-harness.json'
        os.makedirs(os.path.dirname(rp), exist_ok=True)
        json.dump({'property': prop, 'obligation': 'bounded harness', 'reason': 'the relation differential harness no longer builds or runs against the current tree', 'output': (p.stdout + p.stderr)[-4000:]}, open(rp, 'w'), indent=1)
        print(f'VIOLATION property={prop} replay={rp} no-failing-input-found')
        sys.exit(1)
    probs = res.get('problems') or []
    kf = {k['id']: k for k in json.load(open(f'{V}/known_findings.json')) if k['property'] == prop and k.get('kind') == 'bounded-query' and k.get('status') != 'fixed'}
    def classify(q):
        m = re.match(r'without indexes \[(.*?)\] \(err (.*?)\), with indexes \[(.*?)\] \(err (.*?)\)$', q['what'])
        for k in kf.values():
            if q['query'] not in k['queries']:
                continue
            if k.get('diagnosis') == 'indexed == plain without the rows whose relation is null':
                if not m or m.group(2) != '<nil>' or m.group(4) != '<nil>':
                    continue
                plain = [x for x in m.group(1).split(' ') if x]
                idxd = [x for x in m.group(3).split(' ') if x]
                if [x for x in plain if x != '{"owner":null}'] != idxd:
                    continue
            if k.get('diagnosis') == 'indexed has a row that plain does not have (wrong or repeated parent)':
                if not m or m.group(2) != '<nil>' or m.group(4) != '<nil>':
                    continue
                plain = [x for x in m.group(1).split(' ') if x]
                idxd = [x for x in m.group(3).split(' ') if x]
                rest = list(plain)
                extra = False
                for x in idxd:
                    if x in rest:
                        rest.remove(x)
                    else:
                        extra = True
                if not extra:
                    continue  # rows are only missing: not this finding
            return k['id']
        return None
    attributed, fresh = {}, []
    for q in probs:
        fid = classify(q)
        if fid:
            attributed.setdefault(fid, []).append(q)
        else:
            fresh.append(q)
    for k in kf.values():
        n = len(attributed.get(k['id'], []))
        lines.append(f"KNOWN-FINDING: property={prop} {k['what']} [{k['id']}; {n} occurrence(s) in this run]")
    summary.update({'bound': bound, 'cases': res['cases'], 'distinct_nontrivial': res['cases'], 'exhaustive': False,
                    'violating_histories': len({q['history'] for q in probs}), 'attributed_to_known_findings': {k: len(v) for k, v in attributed.items()}})
    if fresh:
        rp = f'{V}/replays/{prop}/bounded-history-1.json'
        os.makedirs(os.path.dirname(rp), exist_ok=True)
        json.dump({'property': prop, 'obligation': 'bounded stand-in: relation differential', 'problems': fresh[:10],
                   'replay_cmd': "go test -overlay <harness overlay> -vet=off -run '^TestGovcC09Relations$' ./internal/db"}, open(rp, 'w'), indent=1)
        lines.append(f'VIOLATION property={prop} replay={rp}')
        violations.append(('relation differential', fresh[:3]))

if prop == 'C14':
    summary['function'] = '(*DB).initialize / loadSchema / collection and index caches / sequences, through a second database object opened over the same store (go test -overlay on real stores)'
    env = {'VERIF_BOUND_DIRECTED': 'full'} if tier == 'thorough' else {}
    nh = 7 if tier == 'thorough' else 5
    bound = f'{nh} histories of 7-9 schema / index / document operations (add schema, patch schema, create and drop indexes, create, update, increment, delete); the database object is replaced by a new one over the same store after every possible step; from then on eight queries, all collection versions and all index descriptions, and the outcome of every later operation must equal those of a node that ran the same history without restart'
    p, res = gotest('^TestGovcC14Restart$', env, 900)
    if res is None:
        rp = f'{V}/replays/{prop}/bounded-harness.json'
        os.makedirs(os.path.dirname(rp), exist_ok=True)
        json.dump({'property': prop, 'obligation': 'bounded harness', 'reason': 'the restart harness no longer builds or runs against the current tree', 'output': (p.stdout + p.stderr)[-4000:]}, open(rp, 'w'), indent=1)
        print(f'VIOLATION property={prop} replay={rp} no-failing-input-found')
        sys.exit(1)
    probs = res.get('problems') or []
    # replicators: what the store holds is what the running node routes by (a restart rebuilds the table from the store)
    import re
    pr = gotest_pkg('^TestGovcC14Replicator', './net/', {'/repo/net/zz_c14_replicator_test.go': f'{V}/harness/net/zz_c14_replicator_test.go'}, 600)
    outr = pr.stdout + pr.stderr
    if not re.search(r'--- PASS: TestGovcC14Replicator', outr):
        msgs = [l.strip() for l in outr.splitlines() if 'C14:' in l]
        probs.append({'history': 'SetReplicator / DeleteReplicator sequences on a running peer', 'restart_after_step': -1,
                      'what': ' | '.join(msgs[:3])[:900] or 'the replicator harness failed: ' + '\n'.join(l for l in outr.splitlines() if ' INF ' not in l)[-600:]})
    bound += '; plus every sequence of two calls (and two of three) over {SetReplicator of one or two collections or all, DeleteReplicator of one collection} on a running peer: after every call the collections the store lists for the replicator are those the running node routes to it (66 sequences)'
    summary.update({'bound': bound, 'cases': res['cases'] + 66, 'distinct_nontrivial': res['cases'] + 66, 'exhaustive': False, 'violating_histories': len({(q['history'], q['restart_after_step']) for q in probs})})
    if probs:
        rp = f'{V}/replays/{prop}/bounded-history-1.json'
        os.makedirs(os.path.dirname(rp), exist_ok=True)
        json.dump({'property': prop, 'obligation': 'bounded stand-in: restart', 'problems': probs[:10],
                   'replay_cmd': "go test -overlay <harness overlay> -vet=off -run '^TestGovcC14Restart$' ./internal/db"}, open(rp, 'w'), indent=1)
        lines.append(f'VIOLATION property={prop} replay={rp}')
        violations.append(('restart', probs[:3]))

if prop == 'C10':
    import re
    summary['function'] = 'planner.dagScanNode (commit-history queries) and fetcher.multiFetcher under permissionedFetcher (showDeleted), through the integration test driver with document access control (go test -overlay)'
    p = gotest_pkg('^TestGovcC10_', './tests/integration/acp/dac/', {'/repo/tests/integration/acp/dac/zz_c10_commits_test.go': f'{V}/harness/acp/zz_c10_commits_test.go'}, 180)
    out = p.stdout + p.stderr
    passed = re.findall(r'--- PASS: (TestGovcC10_\w+)', out)
    failed = re.findall(r'--- FAIL: (TestGovcC10_\w+)', out)
    hung = re.findall(r'panic: test timed out', out)
    bound = 'seven fixed scenarios: a document private to identity 1, requests by identity 2 and by an anonymous requester: plain query, commits, commits by docID, latestCommits, showDeleted (must return the public documents and must return at all); the owner still sees its history; an identity with update but without read permission on an indexed collection'
    summary.update({'bound': bound, 'cases': len(passed) + len(failed) + len(hung), 'distinct_nontrivial': len(passed) + len(failed) + len(hung), 'exhaustive': False, 'violating_histories': len(failed) + len(hung)})
    if failed or hung or len(passed) < 7:
        rp = f'{V}/replays/{prop}/bounded-history-1.json'
        os.makedirs(os.path.dirname(rp), exist_ok=True)
        json.dump({'property': prop, 'obligation': 'bounded stand-in: access-control scenarios', 'failed': failed, 'timed_out': bool(hung), 'passed': passed, 'output': out[-3000:],
                   'replay_cmd': "go test -overlay <harness overlay> -vet=off -run '^TestGovcC10_' ./tests/integration/acp/dac/"}, open(rp, 'w'), indent=1)
        if failed or hung:
            lines.append(f'VIOLATION property={prop} replay={rp}')
        else:
            lines.append(f'VIOLATION property={prop} replay={rp} no-failing-input-found')
        violations.append(('acp scenarios', failed))

if prop == 'C13':
    summary['function'] = 'db.setSchemaIDs / getSchemaSets / generateSetID / substituteRelationFieldKinds through DB.AddSchema (go test -overlay on real databases)'
    p, res = gotest('^TestGovcC13Partition$', {}, 600)
    if res is None:
        rp = f'{V}/replays/{prop}/bounded-harness.json'
        os.makedirs(os.path.dirname(rp), exist_ok=True)
        json.dump({'property': prop, 'obligation': 'bounded harness', 'reason': 'the schema identifier harness no longer builds or runs against the current tree', 'output': (p.stdout + p.stderr)[-4000:]}, open(rp, 'w'), indent=1)
        print(f'VIOLATION property={prop} replay={rp} no-failing-input-found')
        sys.exit(1)
    kf = [k for k in json.load(open(f'{V}/known_findings.json')) if k['property'] == prop and k.get('kind') == 'bounded-case' and k.get('status') != 'fixed']
    fresh = []
    hit = {}
    for r in res['results']:
        if not r['differ']:
            continue
        k = next((k for k in kf if k['case'] == r['name'] and k['differ'] == r['differ']), None)
        if k:
            hit[k['id']] = hit.get(k['id'], 0) + 1
        else:
            fresh.append(r)
    for k in kf:
        lines.append(f"KNOWN-FINDING: property={prop} {k['what']} [{k['id']}; {'reproduced' if hit.get(k['id']) else 'not reproduced'} in this run]")
    summary.update({'bound': 'seven variants (two relation circles joined by a one-directional relation, a three-cycle, a self reference, independent types: reordered SDL or split into several AddSchema calls) plus every order of the type definitions inside one SDL for seven families (two circles joined in either direction, a three-cycle, a circle whose member also points at an independent type, two doubly linked pairs joined by a two-sided relation in either direction): all version and collection identifiers must be equal', 'cases': res['cases'], 'distinct_nontrivial': res['cases'], 'exhaustive': False, 'violating_histories': sum(1 for r in res['results'] if r['differ']), 'attributed_to_known_findings': hit})
    if fresh:
        rp = f'{V}/replays/{prop}/bounded-history-1.json'
        os.makedirs(os.path.dirname(rp), exist_ok=True)
        json.dump({'property': prop, 'obligation': 'bounded stand-in: schema identifiers', 'problems': fresh, 'replay_cmd': "go test -overlay <harness overlay> -vet=off -run '^TestGovcC13Partition$' ./internal/db"}, open(rp, 'w'), indent=1)
        lines.append(f'VIOLATION property={prop} replay={rp}')
        violations.append(('schema identifiers', fresh))

SCEN = {
    'C19': ('^TestGovcC19', './internal/db', dict(HARNESS), 1,
            '(*DB).setActiveSchemaVersion / patchSchema through the DB API (go test -overlay on a real database)',
            'one scenario: add a schema, create a document, patch the schema (new default version), create a document, switch the active version back to the first one and forth again: exactly the requested version is active after each switch and both documents stay readable'),
    'C11': ('^TestGovcC11', './internal/db', dict(HARNESS), 1,
            'coreblock.AddDelta / determineBlockEncryption through Collection.Create / Update (go test -overlay on a real database)',
            'one scenario: a document created with document-level encryption; an update of a field set at creation and the first write of another field; after each write every block of the shared blockstore is searched for the written secret; the writer reads the values back'),
    'C08': ('^TestGovcC08', './tests/integration/query/simple/', {'/repo/tests/integration/query/simple/zz_c08_group_offset_test.go': f'{V}/harness/query/zz_c08_group_offset_test.go', '/repo/tests/integration/query/simple/zz_c08_aggregates_test.go': f'{V}/harness/query/zz_c08_aggregates_test.go'}, 6,
            'planner limit/offset on group members and the aggregate nodes (count, sum, min, max, average) through the integration test driver (go test -overlay)',
            'six fixed scenarios: offset without limit at top level and on group members; count/sum/min/max/average over integers and floats with a null and negative values, over all-negative values, and with order, limit, offset and filter arguments, each against the arithmetic over the listed values'),
    'C20': ('^TestGovcC20', './event/', {'/repo/event/zz_c20_bus_test.go': f'{V}/harness/event/zz_c20_bus_test.go'}, 2,
            'event.channelBus (handleChannel goroutine: subscribe / unsubscribe / publish commands) through the Bus API (go test -overlay)',
            'for k = 1..4 subscribers of two event names and every subset of them that unsubscribes between two publications (30 cases): the remaining subscribers receive every later message, in publication order; and for every combination of up to three subscribers of kind {update, merge-complete, wildcard} and every leaving subset (258 cases, two rounds of publications): each subscriber receives exactly the messages of its names (the wildcard subscriber: all), once, in order'),
}
if prop in SCEN:
    import re
    run, pkg, files, want, fn, bound = SCEN[prop]
    summary['function'] = fn
    p = gotest_pkg(run, pkg, files, 300)
    out = p.stdout + p.stderr
    passed = re.findall(r'--- PASS: (TestGovc\w+)', out)
    failed = re.findall(r'--- FAIL: (TestGovc\w+)', out)
    hung = re.findall(r'panic: test timed out', out)
    summary.update({'bound': bound, 'cases': len(passed) + len(failed) + len(hung), 'distinct_nontrivial': len(passed) + len(failed) + len(hung), 'exhaustive': False, 'violating_histories': len(failed) + len(hung)})
    if failed or hung or len(passed) < want:
        rp = f'{V}/replays/{prop}/bounded-history-1.json'
        os.makedirs(os.path.dirname(rp), exist_ok=True)
        json.dump({'property': prop, 'obligation': 'bounded stand-in: fixed scenarios', 'failed': failed, 'timed_out': bool(hung), 'passed': passed,
                   'output': '\n'.join(l for l in out.splitlines() if ' INF ' not in l)[-3000:], 'replay_cmd': f"go test -overlay <harness overlay> -vet=off -run '{run}' {pkg}"}, open(rp, 'w'), indent=1)
        lines.append(f'VIOLATION property={prop} replay={rp}' + ('' if (failed or hung) else ' no-failing-input-found'))
        violations.append(('scenarios', failed))

if prop == 'C20':
    p6, _ = gotest('^TestGovcC20Subscription', {}, 300)
    summary['bound'] = summary.get('bound', '') + '; one subscription probe: a subscription on one collection yields one result per matching change and none for the changes of another collection'
    summary['cases'] = summary.get('cases', 0) + 1
    if p6.returncode != 0:
        msgs = [l.strip() for l in p6.stdout.splitlines() if 'C20:' in l]
        rp = f'{V}/replays/{prop}/bounded-history-2.json'
        os.makedirs(os.path.dirname(rp), exist_ok=True)
        json.dump({'property': prop, 'obligation': 'bounded stand-in: subscription probe', 'problems': msgs[:5] or [(p6.stdout + p6.stderr)[-1500:]],
                   'replay_cmd': "go test -overlay <harness overlay> -vet=off -run '^TestGovcC20Subscription' ./internal/db"}, open(rp, 'w'), indent=1)
        lines.append(f'VIOLATION property={prop} replay={rp}')
        violations.append(('subscription probe', msgs[:2]))
        summary['violating_histories'] = summary.get('violating_histories', 0) + 1

if prop == 'C08':
    # the filter laws (boolean algebra of the compound operators, on a plain and on a fully indexed collection)
    p, res = gotest('^TestGovcC08FilterLaws$', {}, 900)
    if res is None:
        rp = f'{V}/replays/{prop}/bounded-harness.json'
        os.makedirs(os.path.dirname(rp), exist_ok=True)
        json.dump({'property': prop, 'obligation': 'bounded harness', 'reason': 'the filter law harness no longer builds or runs against the current tree', 'output': (p.stdout + p.stderr)[-4000:]}, open(rp, 'w'), indent=1)
        print(f'VIOLATION property={prop} replay={rp} no-failing-input-found')
        sys.exit(1)
    fl = res.get('problems') or []
    summary['bound'] = summary.get('bound', '') + '; filter laws: 7 documents (strings, ints, floats, booleans, nulls, empty string), every atomic condition over 4 fields x 3-4 values x {_eq,_ne,_gt,_ge,_lt,_le,_in,_nin}, every _not of an atom and every _and/_or of two atoms, on a collection without and one with an index on every field: _not f = all minus f, _and = intersection, _or = union, _in = union of _eq, _nin and _ne are complements, _ge = _gt or _eq, _le = _lt or _eq (%d evaluations)' % res['cases']
    summary['cases'] = summary.get('cases', 0) + res['cases']
    summary['distinct_nontrivial'] = summary['cases']
    summary['violating_histories'] = summary.get('violating_histories', 0) + len(fl)
    # ordering / limit / aggregate laws (the listing is the reference)
    p, res2 = gotest('^TestGovcC08AggregateLaws$', {}, 900)
    if res2 is None:
        rp = f'{V}/replays/{prop}/bounded-harness.json'
        os.makedirs(os.path.dirname(rp), exist_ok=True)
        json.dump({'property': prop, 'obligation': 'bounded harness', 'reason': 'the aggregate law harness no longer builds or runs against the current tree', 'output': (p.stdout + p.stderr)[-4000:]}, open(rp, 'w'), indent=1)
        print(f'VIOLATION property={prop} replay={rp} no-failing-input-found')
        sys.exit(1)
    fl += res2.get('problems') or []
    pv, _ = gotest('^TestGovcC08(OrderWithVersionSelection|CommitsOfSignedDocWithoutSignatureField)$', {}, 300)
    if pv.returncode != 0:
        fl.append({'schema': 'no index', 'law': 'no request fails or panics', 'what': ' '.join(l.strip() for l in pv.stdout.splitlines() if 'C08:' in l)[:600] or 'order with a _version selection / commits of a signed history: the probe failed'})
    summary['bound'] += '; listing laws: order + limit + offset = slice of the ordered listing, _count = number of listed rows, _sum/_min/_max/_avg = arithmetic over the listed non-null values (the average under limit/offset only when no value is null), groups partition the listing and _count/_sum of a group are over its members, several aggregates of one group with different filters are each computed over their own filtered members (3 x 3 filter pairs, both orders of appearance); 7 filters x 4 orders x 7 limit/offset pairs, plain and indexed, plus one ordered listing that selects the _version history and the commit history of a signed document requested without the signature field; every ordered listing is ordered by its first key and has the same key sequence with and without the indexes (%d evaluations)' % res2['cases']
    summary['cases'] += res2['cases']
    summary['distinct_nontrivial'] = summary['cases']
    summary['violating_histories'] = len(fl)
    if fl:
        rp = f'{V}/replays/{prop}/bounded-history-2.json'
        os.makedirs(os.path.dirname(rp), exist_ok=True)
        json.dump({'property': prop, 'obligation': 'bounded stand-in: filter laws', 'problems': fl[:12], 'replay_cmd': "go test -overlay <harness overlay> -vet=off -run '^TestGovcC08FilterLaws$' ./internal/db"}, open(rp, 'w'), indent=1)
        lines.append(f'VIOLATION property={prop} replay={rp}')
        violations.append(('filter laws', fl[:3]))

if prop == 'C16':
    import glob, re
    summary['function'] = 'concurrent collection calls, requests, index changes and incoming merges on one node, under the race detector (go test -race -overlay on real in-memory badger nodes); schedules are whatever the Go scheduler produces in the repeated runs - a bounded sample, not a proof'
    files = {f'/repo/internal/db/{os.path.basename(f)}': f for f in glob.glob(f'{V}/harness/race/*.go')}
    rounds = 1 if tier != 'thorough' else 5
    summary['bound'] = ('%d run(s) under -race of: 20 rounds x 16 goroutines creating documents on one shared concurrent transaction; 10 rounds x 24 goroutines (create / increment / delete / filtered request) on one shared concurrent transaction; 6 rounds x 37 goroutines with own transactions (12 counter increments of one document, 12 creates, 12 requests, index create+drop); 16 merge events for one document published at once. Checked: no race report, no panic, every call that reported success has its effect, the counter is the sum of the successful increments' % rounds)
    def racerun(env):
        o = {'Replace': dict(files)}
        if os.environ.get('GOVC_OVERLAY'):
            o['Replace'].update(json.load(open(os.environ['GOVC_OVERLAY']))['Replace'])
        ovp = f'{work}/overlay-{prop}-{os.getpid()}-race.json'
        json.dump(o, open(ovp, 'w'))
        e = dict(os.environ, GOFLAGS='-mod=mod', GOPROXY='off', **env)
        p = subprocess.run(['go', 'test', '-race', '-overlay', ovp, '-vet=off', '-count=%d' % rounds, '-timeout', '1500s', '-run', '^TestGovcC16', '-v', './internal/db'],
                           cwd='/repo', env=e, capture_output=True, text=True)
        os.remove(ovp)
        return p
    def races(out):
        # (report text, frames of /repo or its dependencies at the racing accesses)
        res = []
        for blk in out.split('WARNING: DATA RACE')[1:]:
            blk = blk.split('==================')[0]
            tops = re.findall(r'^(?:Read at|Write at|Previous read at|Previous write at)[^\n]*\n((?:  [^\n]*\n      [^\n]*\n)+)', blk, re.M)
            frames = []
            for tp in tops:
                fr = [l.strip() for l in tp.split('\n') if l.startswith('  ') and not l.startswith('      ')]
                frames.append(next((f for f in fr if not f.startswith('runtime.') and not f.startswith('sync')), fr[0] if fr else '?'))
            res.append((blk[:3000], frames))
        return res
    kfs = [k for k in json.load(open(f'{V}/known_findings.json')) if k['property'] == prop and k.get('kind') == 'race-site' and k.get('status') != 'fixed']
    def known_site(frames):
        for k in kfs:
            if frames and all(any(s in f for s in k['frames']) for f in frames):
                return k
        return None
    p = racerun({})
    out = p.stdout + p.stderr
    ran = len(re.findall(r'^(?:--- PASS|--- FAIL): TestGovcC16', out, re.M))
    summary['cases'] = ran
    summary['distinct_nontrivial'] = ran
    if ran == 0:
        rp = f'{V}/replays/{prop}/bounded-harness.json'
        os.makedirs(os.path.dirname(rp), exist_ok=True)
        json.dump({'property': prop, 'obligation': 'bounded harness', 'reason': 'the race harness no longer builds or runs against the current tree', 'output': out[-4000:]}, open(rp, 'w'), indent=1)
        print(f'VIOLATION property={prop} replay={rp} no-failing-input-found')
        sys.exit(1)
    problems = []
    for text, frames in races(out):
        k = known_site(frames)
        if k is None:
            problems.append({'what': 'data race at ' + ' / '.join(frames), 'report': text})
    for m in re.finditer(r'^\s+zz_c16[^\n]*C16 VIOLATED: ([^\n]*)$', out, re.M):
        problems.append({'what': m.group(1).strip()})
    for m in re.finditer(r'^(fatal error: [^\n]*|panic: [^\n]*)$', out, re.M):
        problems.append({'what': m.group(1), 'report': out[out.find(m.group(1)):][:3000]})
    if p.returncode != 0 and not problems and not any(True for _ in races(out)):
        problems.append({'what': 'the race harness failed', 'report': out[-3000:]})
    summary['violating_histories'] = len(problems)
    # probes of the listed race sites (the warm-up that avoids them in the runs above is switched off)
    for k in kfs:
        pk = racerun(dict(k.get('probe_env') or {}))
        hit = any(known_site(fr) is k for _, fr in races(pk.stdout + pk.stderr))
        lines.append(f"KNOWN-FINDING: property={prop} {k['what']} [{k['id']}; {'reproduced' if hit else 'not reproduced'} in this run]")
    if problems:
        rp = f'{V}/replays/{prop}/bounded-race-1.json'
        os.makedirs(os.path.dirname(rp), exist_ok=True)
        json.dump({'property': prop, 'obligation': 'bounded stand-in: concurrent calls under the race detector', 'problems': problems[:8],
                   'replay_cmd': "go test -race -overlay <overlay of /verif/harness/race> -vet=off -run '^TestGovcC16' ./internal/db"}, open(rp, 'w'), indent=1)
        lines.append(f'VIOLATION property={prop} replay={rp}')
        violations.append(('race harness', [q['what'] for q in problems[:3]]))

summary['wall_s'] = round(time.time() - t0, 1)
json.dump(summary, open(f'{work}/{prop}.json', 'w'), indent=1)
for l in lines:
    print(l)
sys.exit(1 if violations else 0)
