#!/usr/bin/env python3
"""Must-fail corpus: every mutant (a find/replace on one file of /repo, applied through an
overlay so /repo is never touched) must make the named check report a VIOLATION naming one of the
expected obligations.  A mutant that still verifies means the engine or a contract is
insensitive -> exit 2.  Usage: selftest.py [property|all] [name-substring]"""
import json, os, subprocess, sys, glob, tempfile, shutil

V = '/verif'
def run(prop, name_filter=''):
    bad = 0; n = 0
    scratch = tempfile.mkdtemp(prefix='govc-selftest-', dir=os.environ.get('VERIF_SCRATCH', '/var/tmp'))
    try:
        for mf in sorted(glob.glob(f'{V}/selftest/mutants/*.json')):
            m = json.load(open(mf))
            if prop != 'all' and m['property'] != prop: continue
            if name_filter and name_filter not in mf: continue
            n += 1
            src = open('/repo/' + m['file']).read()
            if src.count(m['find']) != 1:
                print(f'SELFTEST-STALE {os.path.basename(mf)}: pattern occurs {src.count(m["find"])} times'); bad += 1; continue
            mutated = os.path.join(scratch, os.path.basename(m['file']))
            open(mutated, 'w').write(src.replace(m['find'], m['replace']))
            ov = os.path.join(scratch, 'ov.json')
            json.dump({'Replace': {'/repo/' + m['file']: mutated}}, open(ov, 'w'))
            env = dict(os.environ, GOVC_OVERLAY=ov, GOVC_EVIDENCE='off', GOFLAGS='-mod=mod', GOPROXY='off')
            p = subprocess.run([f'{V}/bin/govc', 'check', m['property']], capture_output=True, text=True, env=env)
            hit = [e for e in m['expect'] if ('obligation ' + e) in p.stderr]
            kind = m.get('kind', 'mutant')
            if kind == 'refactor':
                ok = p.returncode == 0
                print(f'{"ok  " if ok else "FAIL"} refactor {os.path.basename(mf)} exit={p.returncode}')
            else:
                ok = p.returncode == 1 and hit
                print(f'{"ok  " if ok else "FAIL"} mutant {os.path.basename(mf)} exit={p.returncode} caught_by={hit}')
            if not ok:
                bad += 1
                sys.stdout.write(''.join('    ' + l + '\n' for l in p.stderr.splitlines() if 'violated' in l or 'ERROR' in l)[:3000])
    finally:
        shutil.rmtree(scratch, ignore_errors=True)
    print(f'selftest: {n} cases, {bad} bad')
    return 2 if bad else 0

if __name__ == '__main__':
    sys.exit(run(sys.argv[1] if len(sys.argv) > 1 else 'all', sys.argv[2] if len(sys.argv) > 2 else ''))
