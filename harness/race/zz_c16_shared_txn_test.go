// Bounded stand-in for property C16 (injected with go test -overlay and run under the race detector; never
// in /repo): goroutines that share one transaction obtained with NewConcurrentTxn create distinct
// documents; after Commit every create that reported success is visible and every success callback ran
// (one Update event per created document).
package db

import (
	"context"
	"fmt"
	"os"
	"sync"
	"testing"
	"time"

	"github.com/sourcenetwork/defradb/client"
	"github.com/sourcenetwork/defradb/event"
)

func TestGovcC16SharedConcurrentTxn(t *testing.T) {
	ctx := context.Background()
	for round := 0; round < 20; round++ {
		db, err := newBadgerDB(ctx)
		if err != nil {
			t.Fatal(err)
		}
		if _, err := db.AddSchema(ctx, `type Users { name: String age: Int }`); err != nil {
			t.Fatal(err)
		}
		col, err := db.GetCollectionByName(ctx, "Users")
		if err != nil {
			t.Fatal(err)
		}
		sub, err := db.events.Subscribe(event.UpdateName)
		if err != nil {
			t.Fatal(err)
		}
		txn, err := db.NewConcurrentTxn(ctx, false)
		if err != nil {
			t.Fatal(err)
		}
		tctx := InitContext(ctx, txn)
		const n = 16
		var wg sync.WaitGroup
		errs := make([]error, n)
		for i := 0; i < n; i++ {
			wg.Add(1)
			go func(i int) {
				defer wg.Done()
				doc, err := client.NewDocFromJSON([]byte(fmt.Sprintf(`{"name":"u%d","age":%d}`, i, i)), col.Definition())
				if err != nil {
					errs[i] = err
					return
				}
				errs[i] = col.Create(tctx, doc)
			}(i)
		}
		wg.Wait()
		ok := 0
		for _, e := range errs {
			if e == nil {
				ok++
			}
		}
		if err := txn.Commit(ctx); err != nil {
			t.Fatalf("round %d: commit: %v", round, err)
		}
		res := db.ExecRequest(ctx, `query { Users { name } }`)
		if len(res.GQL.Errors) > 0 {
			t.Fatal(res.GQL.Errors[0])
		}
		rows, _ := res.GQL.Data.(map[string]any)["Users"].([]map[string]any)
		if len(rows) != ok {
			t.Errorf("C16 VIOLATED: round %d: %d creates reported success, %d documents are visible after commit", round, ok, len(rows))
		}
		got := 0
		timeout := time.After(2 * time.Second)
	loop:
		for got < ok {
			select {
			case <-sub.Message():
				got++
			case <-timeout:
				break loop
			}
		}
		if got != ok {
			t.Errorf("C16 VIOLATED: round %d: %d creates reported success, %d update events were published after commit (success callbacks lost)", round, ok, got)
		}
		db.Close()
	}
}

// Mixed calls on one shared concurrent transaction: creates, updates of distinct pre-existing documents,
// reads, a filtered request, deletes.  Every call that reported success has its effect after Commit.
func TestGovcC16SharedConcurrentTxnMixed(t *testing.T) {
	ctx := context.Background()
	for round := 0; round < 10; round++ {
		db, err := newBadgerDB(ctx)
		if err != nil {
			t.Fatal(err)
		}
		if _, err := db.AddSchema(ctx, `type Users { name: String @index age: Int points: Int @crdt(type: pcounter) }`); err != nil {
			t.Fatal(err)
		}
		col, err := db.GetCollectionByName(ctx, "Users")
		if err != nil {
			t.Fatal(err)
		}
		const n = 8
		ids := make([]client.DocID, n)
		for i := 0; i < n; i++ {
			doc, err := client.NewDocFromJSON([]byte(fmt.Sprintf(`{"name":"old%d","age":%d,"points":0}`, i, i)), col.Definition())
			if err != nil {
				t.Fatal(err)
			}
			if err := col.Create(ctx, doc); err != nil {
				t.Fatal(err)
			}
			ids[i] = doc.ID()
		}
		if os.Getenv("VERIF_C16_NO_WARMUP") != "1" {
			// the GraphQL library builds the field maps of its input types on first use, without
			// synchronisation (known finding C16-graphql-lazy-input-fields): one request of the same shape first
			db.ExecRequest(ctx, `query { Users(filter: {name: {_eq: "nobody"}}) { name points } }`)
		}
		txn, err := db.NewConcurrentTxn(ctx, false)
		if err != nil {
			t.Fatal(err)
		}
		tctx := InitContext(ctx, txn)
		var wg sync.WaitGroup
		created := make([]error, n)
		updated := make([]error, n)
		deleted := make([]error, n)
		for i := 0; i < n; i++ {
			wg.Add(3)
			go func(i int) {
				defer wg.Done()
				doc, err := client.NewDocFromJSON([]byte(fmt.Sprintf(`{"name":"new%d","age":%d,"points":1}`, i, 100+i)), col.Definition())
				if err != nil {
					created[i] = err
					return
				}
				created[i] = col.Create(tctx, doc)
			}(i)
			go func(i int) {
				defer wg.Done()
				if i%2 == 0 {
					doc, err := col.Get(tctx, ids[i], false)
					if err != nil {
						updated[i] = err
						return
					}
					if err := doc.Set("points", int64(5)); err != nil {
						updated[i] = err
						return
					}
					updated[i] = col.Update(tctx, doc)
				} else {
					_, deleted[i] = col.Delete(tctx, ids[i])
				}
			}(i)
			go func(i int) {
				defer wg.Done()
				res := db.ExecRequest(tctx, fmt.Sprintf(`query { Users(filter: {name: {_eq: "old%d"}}) { name points } }`, i))
				_ = res
			}(i)
		}
		wg.Wait()
		if err := txn.Commit(ctx); err != nil {
			t.Fatalf("round %d: commit: %v", round, err)
		}
		res := db.ExecRequest(ctx, `query { Users { name points } }`)
		if len(res.GQL.Errors) > 0 {
			t.Fatal(res.GQL.Errors[0])
		}
		rows, _ := res.GQL.Data.(map[string]any)["Users"].([]map[string]any)
		have := map[string]any{}
		for _, r := range rows {
			have[fmt.Sprint(r["name"])] = r["points"]
		}
		for i := 0; i < n; i++ {
			if created[i] == nil {
				if _, ok := have[fmt.Sprintf("new%d", i)]; !ok {
					t.Errorf("C16 VIOLATED: round %d: create %d reported success, the document is missing", round, i)
				}
			}
			if i%2 == 0 {
				if updated[i] == nil && fmt.Sprint(have[fmt.Sprintf("old%d", i)]) != "5" {
					t.Errorf("C16 VIOLATED: round %d: increment of old%d reported success, points = %v", round, i, have[fmt.Sprintf("old%d", i)])
				}
				if updated[i] != nil {
					t.Logf("round %d: update %d: %v", round, i, updated[i])
				}
			} else {
				if _, ok := have[fmt.Sprintf("old%d", i)]; ok && deleted[i] == nil {
					t.Errorf("C16 VIOLATED: round %d: delete of old%d reported success, the document is still listed", round, i)
				}
			}
		}
		db.Close()
	}
}

// Independent calls (each in its own implicit transaction): counter increments of one document, creates,
// requests, and an index that is created and dropped meanwhile.  Calls that reported success have their
// effect, calls that reported an error (a transaction conflict) have none: the counter ends at the sum of
// the successful increments.
func TestGovcC16IndependentCalls(t *testing.T) {
	ctx := context.Background()
	for round := 0; round < 6; round++ {
		db, err := newBadgerDB(ctx)
		if err != nil {
			t.Fatal(err)
		}
		if _, err := db.AddSchema(ctx, `type Users { name: String age: Int points: Int @crdt(type: pcounter) }`); err != nil {
			t.Fatal(err)
		}
		col, err := db.GetCollectionByName(ctx, "Users")
		if err != nil {
			t.Fatal(err)
		}
		shared, err := client.NewDocFromJSON([]byte(`{"name":"shared","age":1,"points":0}`), col.Definition())
		if err != nil {
			t.Fatal(err)
		}
		if err := col.Create(ctx, shared); err != nil {
			t.Fatal(err)
		}
		db.ExecRequest(ctx, `query { Users(filter: {name: {_eq: "nobody"}}) { name points } }`)
		db.ExecRequest(ctx, `mutation { update_Users(filter: {name: {_eq: "nobody"}}, input: {points: 1}) { name } }`)
		const n = 12
		var wg sync.WaitGroup
		incOK := make([]bool, n)
		createOK := make([]bool, n)
		for i := 0; i < n; i++ {
			wg.Add(3)
			go func(i int) {
				defer wg.Done()
				res := db.ExecRequest(ctx, `mutation { update_Users(filter: {name: {_eq: "shared"}}, input: {points: 3}) { name } }`)
				incOK[i] = len(res.GQL.Errors) == 0
			}(i)
			go func(i int) {
				defer wg.Done()
				doc, err := client.NewDocFromJSON([]byte(fmt.Sprintf(`{"name":"u%d","age":%d,"points":1}`, i, i)), col.Definition())
				if err != nil {
					return
				}
				createOK[i] = col.Create(ctx, doc) == nil
			}(i)
			go func(i int) {
				defer wg.Done()
				db.ExecRequest(ctx, fmt.Sprintf(`query { Users(filter: {name: {_eq: "u%d"}}) { name points } }`, i))
			}(i)
		}
		wg.Add(1)
		go func() {
			defer wg.Done()
			// index changes go through a collection handle of their own (a handle caches its index list)
			icol, err := db.GetCollectionByName(ctx, "Users")
			if err != nil {
				return
			}
			for k := 0; k < 3; k++ {
				if _, err := icol.CreateIndex(ctx, client.IndexCreateRequest{Name: "by_name", Fields: []client.IndexedFieldDescription{{Name: "name"}}}); err == nil {
					_ = icol.DropIndex(ctx, "by_name")
				}
			}
		}()
		wg.Wait()
		res := db.ExecRequest(ctx, `query { Users { name points } }`)
		if len(res.GQL.Errors) > 0 {
			t.Fatal(res.GQL.Errors[0])
		}
		rows, _ := res.GQL.Data.(map[string]any)["Users"].([]map[string]any)
		have := map[string]any{}
		for _, r := range rows {
			have[fmt.Sprint(r["name"])] = r["points"]
		}
		ok := 0
		for i := 0; i < n; i++ {
			if incOK[i] {
				ok++
			}
			if _, listed := have[fmt.Sprintf("u%d", i)]; listed != createOK[i] {
				t.Errorf("C16 VIOLATED: round %d: create u%d reported success=%v, listed=%v", round, i, createOK[i], listed)
			}
		}
		if fmt.Sprint(have["shared"]) != fmt.Sprint(3*ok) {
			t.Errorf("C16 VIOLATED: round %d: %d increments of 3 reported success, the counter is %v", round, ok, have["shared"])
		}
		db.Close()
	}
}
