// Bounded stand-in for property C16, incoming merges (go test -overlay, race detector; never in /repo): many
// peers increment the counter of the same document; their heads reach one node as merge events at the same
// time.  Every merge completes and the counter ends at the sum of the increments.
package db

import (
	"context"
	"fmt"
	"testing"
	"time"

	"github.com/ipfs/go-cid"
	"github.com/sourcenetwork/corekv"

	"github.com/sourcenetwork/defradb/client"
	"github.com/sourcenetwork/defradb/event"
	"github.com/sourcenetwork/defradb/internal/core"
	"github.com/sourcenetwork/defradb/internal/keys"
)

func c16Node(t *testing.T, ctx context.Context) (*DB, client.Collection, client.DocID) {
	node, err := newBadgerDB(ctx)
	if err != nil {
		t.Fatal(err)
	}
	t.Cleanup(node.Close)
	if _, err := node.AddSchema(ctx, `type Users { name: String points: Int @crdt(type: pcounter) }`); err != nil {
		t.Fatal(err)
	}
	col, err := node.GetCollectionByName(ctx, "Users")
	if err != nil {
		t.Fatal(err)
	}
	doc, err := client.NewDocFromMap(map[string]any{"name": "shared", "points": 0}, col.Definition())
	if err != nil {
		t.Fatal(err)
	}
	if err := col.Create(ctx, doc); err != nil {
		t.Fatal(err)
	}
	return node, col, doc.ID()
}

func TestGovcC16ConcurrentMerges(t *testing.T) {
	ctx := context.Background()
	const peers = 16
	target, col, docID := c16Node(t, ctx)
	var heads []cid.Cid
	expected := int64(0)
	for i := 1; i <= peers; i++ {
		peer, _, pid := c16Node(t, ctx)
		if pid.String() != docID.String() {
			t.Fatalf("document ids differ")
		}
		res := peer.ExecRequest(ctx, fmt.Sprintf(`mutation { update_Users(docID: "%s", input: {points: %d}) { points } }`, docID, i))
		if len(res.GQL.Errors) > 0 {
			t.Fatal(res.GQL.Errors[0])
		}
		expected += int64(i)
		txnCtx, txn, err := ensureContextTxn(ctx, peer, true)
		if err != nil {
			t.Fatal(err)
		}
		hs, err := getHeads(txnCtx, keys.HeadstoreDocKey{DocID: docID.String(), FieldID: core.COMPOSITE_NAMESPACE})
		txn.Discard(txnCtx)
		if err != nil || len(hs) != 1 {
			t.Fatalf("heads of peer %d: %v %v", i, hs, err)
		}
		heads = append(heads, hs[0])
		// the blocks are local before a merge event is published (as after the DAG sync)
		iter, err := peer.rootstore.Iterator(ctx, corekv.IterOptions{Prefix: []byte("/db/blocks")})
		if err != nil {
			t.Fatal(err)
		}
		for {
			ok, err := iter.Next()
			if err != nil {
				t.Fatal(err)
			}
			if !ok {
				break
			}
			v, err := iter.Value()
			if err != nil {
				t.Fatal(err)
			}
			if err := target.rootstore.Set(ctx, append([]byte{}, iter.Key()...), append([]byte{}, v...)); err != nil {
				t.Fatal(err)
			}
		}
		iter.Close()
	}
	sub, err := target.events.Subscribe(event.MergeCompleteName)
	if err != nil {
		t.Fatal(err)
	}
	for _, h := range heads {
		target.events.Publish(event.NewMessage(event.MergeName, event.Merge{DocID: docID.String(), Cid: h, CollectionID: col.Version().CollectionID}))
	}
	completed := 0
	timeout := time.After(60 * time.Second)
wait:
	for completed < peers {
		select {
		case _, ok := <-sub.Message():
			if !ok {
				break wait
			}
			completed++
		case <-timeout:
			break wait
		}
	}
	if completed != peers {
		t.Errorf("C16 VIOLATED: %d merge events were published, %d merges completed", peers, completed)
	}
	res := target.ExecRequest(ctx, `query { Users { points } }`)
	if len(res.GQL.Errors) > 0 {
		t.Fatal(res.GQL.Errors[0])
	}
	rows, _ := res.GQL.Data.(map[string]any)["Users"].([]map[string]any)
	if len(rows) != 1 || fmt.Sprint(rows[0]["points"]) != fmt.Sprint(expected) {
		t.Errorf("C16 VIOLATED: counter after %d concurrent merges: %v, the increments sum to %d", peers, rows, expected)
	}
}
