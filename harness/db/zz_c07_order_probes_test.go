// Probes for property C07 / C08 (injected with go test -overlay; never in /repo): ordered listings served by an
// index - a composite index whose second field is an array (no document twice), and deleted documents shown
// together with live ones (still ordered).
package db

import (
	"context"
	"fmt"
	"testing"

	"github.com/sourcenetwork/defradb/client"
)

func c07OrderedNames(t *testing.T, ctx context.Context, db *DB, q string) []string {
	res := db.ExecRequest(ctx, q)
	if len(res.GQL.Errors) > 0 {
		t.Fatalf("%s: %v", q, res.GQL.Errors[0])
	}
	rows, _ := res.GQL.Data.(map[string]any)["Users"].([]map[string]any)
	var out []string
	for _, r := range rows {
		out = append(out, fmt.Sprintf("%v/%v", r["name"], r["age"]))
	}
	return out
}

func TestGovcC07OrderByCompositeArrayIndex(t *testing.T) {
	ctx := context.Background()
	var ref []string
	for i, schema := range []string{
		`type Users { name: String age: Int tags: [String!] }`,
		`type Users @index(includes: [{field: "name"}, {field: "tags"}]) { name: String age: Int tags: [String!] }`,
	} {
		db, _, _ := c05NewDB(t, ctx)
		c05Users(t, ctx, db, schema, `{"name":"b","age":1,"tags":["x","y"]}`, `{"name":"a","age":2,"tags":["y","z","x"]}`, `{"name":"c","age":3,"tags":["q"]}`)
		got := c07OrderedNames(t, ctx, db, `query { Users(order: {name: ASC}) { name age } }`)
		if i == 0 {
			ref = got
		} else if fmt.Sprint(got) != fmt.Sprint(ref) {
			t.Errorf("C07: order: {name: ASC}: %v without the index, %v with a composite index (name, tags)", ref, got)
		}
		db.Close()
	}
}

func TestGovcC07OrderShowDeletedIndexed(t *testing.T) {
	ctx := context.Background()
	var ref []string
	for i, schema := range []string{
		`type Users { name: String age: Int }`,
		`type Users { name: String age: Int @index }`,
	} {
		db, _, _ := c05NewDB(t, ctx)
		col := c05Users(t, ctx, db, schema)
		var ids []client.DocID
		for k, age := range []int{5, 1, 4, 2, 3, 6} {
			doc, err := client.NewDocFromJSON([]byte(fmt.Sprintf(`{"name":"u%d","age":%d}`, k, age)), col.Definition())
			if err != nil {
				t.Fatal(err)
			}
			if err := col.Create(ctx, doc); err != nil {
				t.Fatal(err)
			}
			ids = append(ids, doc.ID())
		}
		for _, k := range []int{0, 3} {
			if _, err := col.Delete(ctx, ids[k]); err != nil {
				t.Fatal(err)
			}
		}
		got := c07OrderedNames(t, ctx, db, `query { Users(showDeleted: true, order: {age: ASC}) { name age } }`)
		if i == 0 {
			ref = got
		} else if fmt.Sprint(got) != fmt.Sprint(ref) {
			t.Errorf("C07: showDeleted with order: {age: ASC}: %v without the index, %v with an index on age", ref, got)
		}
		db.Close()
	}
}
