// Probe for property C08 (no request makes the node panic; injected with go test -overlay; never in /repo):
// an ordered listing that also selects the _version history.
package db

import (
	"context"
	"os"
	"testing"
)

func TestGovcC08OrderWithVersionSelection(t *testing.T) {
	ctx := context.Background()
	db, _, _ := c05NewDB(t, ctx)
	defer db.Close()
	c05Users(t, ctx, db, `type Users { name: String age: Int }`, `{"name":"a","age":2}`, `{"name":"b","age":1}`)
	if os.Getenv("VERIF_RAW") == "1" {
		db.ExecRequest(ctx, `query { Users(order: {age: ASC}) { name _version { cid } } }`)
	}
	m, err := c08Exec(ctx, db, `query { Users(order: {age: ASC}) { name _version { cid } } }`)
	if err != nil {
		t.Fatalf("C08: order with a _version selection: %v", err)
	}
	rows, _ := m["Users"].([]map[string]any)
	if len(rows) != 2 || rows[0]["name"] != "b" {
		t.Errorf("C08: order with a _version selection: %v", rows)
	}
}
