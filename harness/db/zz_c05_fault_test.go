// Replay harness for property C05 (injected into package db with `go test -overlay`; never written
// into /repo).  It replays a protocol-level counterexample ("a sub-operation fails and the caller
// still reports success") against the real code: every storage operation issued by the API call is
// failed in turn, and the call must either report an error and leave the store unchanged, or report
// success with the complete effect.
//
// Labelled BOUNDED wherever it is reported: it enumerates the fault points of the listed scenarios
// only; it is the replay oracle of the ErrFlow/TxnAPI obligations, not a proof.

package db

import (
	"bytes"
	"context"
	"encoding/json"
	"errors"
	"fmt"
	"os"
	"sort"
	"strings"
	"testing"

	"github.com/sourcenetwork/corekv"
	badgerds "github.com/dgraph-io/badger/v4"
	"github.com/sourcenetwork/corekv/badger"

	"github.com/sourcenetwork/defradb/acp/dac"
	"github.com/sourcenetwork/defradb/client"
)

var errInjected = errors.New("govc: injected storage fault")

type faultCtl struct {
	count  int // storage operations seen since arm()
	failAt int // 0 = never
	armed  bool
	fired  bool
	what   string
}

func (f *faultCtl) op(name string) error {
	if !f.armed {
		return nil
	}
	f.count++
	if f.failAt != 0 && f.count == f.failAt {
		f.fired = true
		f.what = name
		return errInjected
	}
	return nil
}

type faultStore struct {
	corekv.TxnStore
	ctl *faultCtl
}

func (s *faultStore) NewTxn(ro bool) corekv.Txn { return &faultTxn{s.TxnStore.NewTxn(ro), s.ctl} }

type faultTxn struct {
	corekv.Txn
	ctl *faultCtl
}

func (t *faultTxn) Get(ctx context.Context, k []byte) ([]byte, error) {
	if err := t.ctl.op("Get"); err != nil {
		return nil, err
	}
	return t.Txn.Get(ctx, k)
}
func (t *faultTxn) Has(ctx context.Context, k []byte) (bool, error) {
	if err := t.ctl.op("Has"); err != nil {
		return false, err
	}
	return t.Txn.Has(ctx, k)
}
func (t *faultTxn) Set(ctx context.Context, k, v []byte) error {
	if err := t.ctl.op("Set"); err != nil {
		return err
	}
	return t.Txn.Set(ctx, k, v)
}
func (t *faultTxn) Delete(ctx context.Context, k []byte) error {
	if err := t.ctl.op("Delete"); err != nil {
		return err
	}
	return t.Txn.Delete(ctx, k)
}
func (t *faultTxn) Iterator(ctx context.Context, o corekv.IterOptions) (corekv.Iterator, error) {
	if err := t.ctl.op("Iterator"); err != nil {
		return nil, err
	}
	it, err := t.Txn.Iterator(ctx, o)
	if err != nil {
		return nil, err
	}
	return &faultIter{it, t.ctl}, nil
}
func (t *faultTxn) Commit() error {
	if err := t.ctl.op("Commit"); err != nil {
		t.Txn.Discard()
		return err
	}
	return t.Txn.Commit()
}

type faultIter struct {
	corekv.Iterator
	ctl *faultCtl
}

func (i *faultIter) Next() (bool, error) {
	if err := i.ctl.op("Iterator.Next"); err != nil {
		return false, err
	}
	return i.Iterator.Next()
}
func (i *faultIter) Value() ([]byte, error) {
	if err := i.ctl.op("Iterator.Value"); err != nil {
		return nil, err
	}
	return i.Iterator.Value()
}
func (i *faultIter) Seek(k []byte) (bool, error) {
	if err := i.ctl.op("Iterator.Seek"); err != nil {
		return false, err
	}
	return i.Iterator.Seek(k)
}

// dump returns every key/value of the root store, sorted.
func dumpStore(t *testing.T, ctx context.Context, s corekv.TxnStore) string {
	it, err := s.Iterator(ctx, corekv.DefaultIterOptions)
	if err != nil {
		t.Fatal(err)
	}
	defer it.Close()
	var lines []string
	for {
		ok, err := it.Next()
		if err != nil {
			t.Fatal(err)
		}
		if !ok {
			break
		}
		v, _ := it.Value()
		lines = append(lines, fmt.Sprintf("%x=%x", it.Key(), v))
	}
	sort.Strings(lines)
	return strings.Join(lines, "\n")
}

type c05Scenario struct {
	name  string
	funcs []string // functions under contract this scenario drives
	setup func(t *testing.T, ctx context.Context, db *DB) client.Collection
	op    func(ctx context.Context, db *DB, col client.Collection) error
}

func c05NewDB(t *testing.T, ctx context.Context) (*DB, *faultCtl, corekv.TxnStore) {
	ctl := &faultCtl{}
	// in-memory badger, as the package's own tests use (the corekv memory store cannot read inside a
	// transaction while one of its iterators is open)
	mem, err := badger.NewDatastore("", badgerds.DefaultOptions("").WithInMemory(true).WithLoggingLevel(badgerds.ERROR))
	if err != nil {
		t.Fatal(err)
	}
	store := &faultStore{mem, ctl}
	adminInfo, err := NewNACInfo(ctx, "", false)
	if err != nil {
		t.Fatal(err)
	}
	db, err := newDB(ctx, store, adminInfo, dac.NoDocumentACP, nil)
	if err != nil {
		t.Fatal(err)
	}
	return db, ctl, mem
}

func c05Users(t *testing.T, ctx context.Context, db *DB, schema string, docs ...string) client.Collection {
	_, err := db.AddSchema(ctx, schema)
	if err != nil {
		t.Fatal(err)
	}
	col, err := db.GetCollectionByName(ctx, "Users")
	if err != nil {
		t.Fatal(err)
	}
	for _, d := range docs {
		doc, err := client.NewDocFromJSON([]byte(d), col.Definition())
		if err != nil {
			t.Fatal(err)
		}
		if err := col.Create(ctx, doc); err != nil {
			t.Fatal(err)
		}
	}
	return col
}

var c05Scenarios = []c05Scenario{
	{
		name:  "UpdateWithFilter",
		funcs: []string{"(*db.collection).updateWithFilter", "(*db.collection).UpdateWithFilter", "(*db.collection).update", "(*db.collection).save"},
		setup: func(t *testing.T, ctx context.Context, db *DB) client.Collection {
			return c05Users(t, ctx, db, `type Users { name: String age: Int }`,
				`{"name":"a","age":1}`, `{"name":"b","age":2}`, `{"name":"c","age":3}`)
		},
		op: func(ctx context.Context, db *DB, col client.Collection) error {
			_, err := col.UpdateWithFilter(ctx, `{age: {_ge: 1}}`, `{"age": 50}`)
			return err
		},
	},
	{
		name:  "DeleteWithFilter",
		funcs: []string{"(*db.collection).deleteWithFilter", "(*db.collection).DeleteWithFilter", "(*db.collection).applyDelete"},
		setup: func(t *testing.T, ctx context.Context, db *DB) client.Collection {
			return c05Users(t, ctx, db, `type Users { name: String age: Int }`,
				`{"name":"a","age":1}`, `{"name":"b","age":2}`, `{"name":"c","age":3}`)
		},
		op: func(ctx context.Context, db *DB, col client.Collection) error {
			_, err := col.DeleteWithFilter(ctx, `{age: {_ge: 1}}`)
			return err
		},
	},
	{
		name:  "CreateIndexed",
		funcs: []string{"(*db.collection).Create", "(*db.collection).create", "(*db.collection).save", "(*db.collection).indexNewDoc"},
		setup: func(t *testing.T, ctx context.Context, db *DB) client.Collection {
			return c05Users(t, ctx, db, `type Users { name: String @index age: Int @index(unique: true) }`,
				`{"name":"a","age":1}`)
		},
		op: func(ctx context.Context, db *DB, col client.Collection) error {
			doc, err := client.NewDocFromJSON([]byte(`{"name":"z","age":9}`), col.Definition())
			if err != nil {
				return err
			}
			return col.Create(ctx, doc)
		},
	},
	{
		name:  "CreateIndexOnData",
		funcs: []string{"(*db.collection).CreateIndex", "(*db.collection).createIndex", "(*db.collection).addNewIndex", "(*db.collection).indexExistingDocs", "(*db.collection).iterateAllDocs"},
		setup: func(t *testing.T, ctx context.Context, db *DB) client.Collection {
			return c05Users(t, ctx, db, `type Users { name: String age: Int }`,
				`{"name":"a","age":1}`, `{"name":"b","age":2}`)
		},
		op: func(ctx context.Context, db *DB, col client.Collection) error {
			_, err := col.CreateIndex(ctx, client.IndexCreateRequest{Name: "byAge", Fields: []client.IndexedFieldDescription{{Name: "age"}}})
			return err
		},
	},
}

type c05Violation struct {
	Scenario string `json:"scenario"`
	FailAt   int    `json:"fail_at"`
	FailedOp string `json:"failed_op"`
	Kind     string `json:"kind"`
	Detail   string `json:"detail"`
}

// TestGovcC05Faults: VERIF_C05_SCENARIOS (comma separated names, default all), VERIF_C05_OUT = JSON result file.
func TestGovcC05Faults(t *testing.T) {
	want := map[string]bool{}
	for _, s := range strings.Split(os.Getenv("VERIF_C05_SCENARIOS"), ",") {
		if s != "" {
			want[s] = true
		}
	}
	fn := os.Getenv("VERIF_C05_FUNC")
	var viols []c05Violation
	cases, nontrivial := 0, 0
	var ran []string
	for _, sc := range c05Scenarios {
		if len(want) > 0 && !want[sc.name] {
			continue
		}
		if fn != "" {
			hit := false
			for _, f := range sc.funcs {
				hit = hit || f == fn
			}
			if !hit {
				continue
			}
		}
		ran = append(ran, sc.name)
		ctx := context.Background()
		// reference run: count the storage operations and record the complete effect
		db, ctl, mem := c05NewDB(t, ctx)
		col := sc.setup(t, ctx, db)
		before := dumpStore(t, ctx, mem)
		ctl.armed = true
		if err := sc.op(ctx, db, col); err != nil {
			t.Fatalf("%s: fault-free run failed: %v", sc.name, err)
		}
		ctl.armed = false
		n := ctl.count
		after := dumpStore(t, ctx, mem)
		db.Close()
		if before == after {
			t.Fatalf("%s: operation has no effect", sc.name)
		}
		for k := 1; k <= n; k++ {
			db, ctl, mem := c05NewDB(t, ctx)
			col := sc.setup(t, ctx, db)
			b2 := dumpStore(t, ctx, mem)
			if b2 != before {
				t.Fatalf("%s: setup is not deterministic", sc.name)
			}
			ctl.failAt = k
			ctl.armed = true
			err := sc.op(ctx, db, col)
			ctl.armed = false
			cases++
			if ctl.fired {
				nontrivial++
			}
			got := dumpStore(t, ctx, mem)
			switch {
			case err != nil && got != before:
				viols = append(viols, c05Violation{sc.name, k, ctl.what, "error-but-state-changed", err.Error()})
			case err == nil && ctl.fired && got != after:
				kind := "success-with-partial-effect"
				if got == before {
					kind = "success-with-no-effect"
				}
				viols = append(viols, c05Violation{sc.name, k, ctl.what, kind, fmt.Sprintf("storage op #%d (%s) failed, call returned nil", k, ctl.what)})
			}
			db.Close()
		}
	}
	out := map[string]any{"scenarios": ran, "cases": cases, "faults_fired": nontrivial, "violations": viols}
	data, _ := json.MarshalIndent(out, "", " ")
	if p := os.Getenv("VERIF_C05_OUT"); p != "" {
		os.WriteFile(p, data, 0o644)
	}
	var buf bytes.Buffer
	buf.Write(data)
	t.Log(buf.String())
	if len(viols) > 0 {
		t.Fatalf("C05 violated: %d fault points", len(viols))
	}
}
