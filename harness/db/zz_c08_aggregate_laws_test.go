// Bounded stand-in for the ordering / limit / aggregate part of property C08 (injected with go test -overlay;
// never in /repo).  The documented semantics is stated over the listed values, so the listing itself is the
// reference:
//   order + limit l + offset o           = the ordered full listing [o : o+l]   (l = 0: everything after o)
//   _count(Users: {args})                = number of rows of Users(args)
//   _sum / _min / _max / _avg(field, args) = arithmetic over the non-null field values of Users(args)
//   groupBy: the groups partition the listing; _count / _sum of a group = over its members
// The laws are checked on a collection without indexes and on one with an index on every field.

package db

import (
	"context"
	"encoding/json"
	"fmt"
	"math"
	"os"
	"sort"
	"strings"
	"testing"
)

func c08Exec(ctx context.Context, db *DB, q string) (m map[string]any, err error) {
	defer func() {
		if r := recover(); r != nil {
			err = fmt.Errorf("PANIC: %v", r)
		}
	}()
	out := db.ExecRequest(ctx, q)
	if len(out.GQL.Errors) > 0 {
		return nil, out.GQL.Errors[0]
	}
	m, _ = out.GQL.Data.(map[string]any)
	return m, nil
}

func c08Num(v any) (float64, bool) {
	switch x := v.(type) {
	case int64:
		return float64(x), true
	case int:
		return float64(x), true
	case float64:
		return x, true
	case uint64:
		return float64(x), true
	}
	return 0, false
}

func c08Close(a, b float64) bool { return math.Abs(a-b) <= 1e-9*(1+math.Abs(a)+math.Abs(b)) }

func TestGovcC08AggregateLaws(t *testing.T) {
	ctx := context.Background()
	docs := []string{
		`{"name":"a","age":1,"score":1.5}`,
		`{"name":"a","age":2,"score":-1.5}`,
		`{"name":"b","age":1,"score":0.25}`,
		`{"name":"b","age":null,"score":2.5}`,
		`{"name":"c","age":-3,"score":null}`,
		`{"name":"c","age":7}`,
		`{"name":"d","age":2,"score":1.5}`,
	}
	schemas := map[string]string{
		"no index": `type Users { name: String age: Int score: Float }`,
		"indexed":  `type Users { name: String @index age: Int @index score: Float @index }`,
	}
	filters := []string{"", `filter: {age: {_gt: 0}}`, `filter: {name: {_in: ["a", "c"]}}`, `filter: {score: {_ne: null}}`, `filter: {age: {_eq: 99}}`,
		`filter: {age: {_in: [7, 1, 2]}}`, `filter: {name: {_in: ["c", "a"]}}`}
	orders := []string{`order: {age: ASC}`, `order: {age: DESC}`, `order: {score: DESC}`, `order: [{name: ASC}, {age: DESC}]`}
	type lim struct{ l, o int }
	limits := []lim{{0, 0}, {2, 0}, {0, 2}, {2, 1}, {3, 5}, {1, 9}, {10, 0}}
	var problems []c08Law
	cases := 0
	// the sequence of sort keys of an ordered listing, per request, on the collection without indexes
	plainKeys := map[string]string{}
	for _, sname := range []string{"no index", "indexed"} {
		schema := schemas[sname]
		db, _, _ := c05NewDB(t, ctx)
		c05Users(t, ctx, db, schema, docs...)
		add := func(law, what string) { problems = append(problems, c08Law{sname, law, what}) }
		list := func(args string) ([]map[string]any, bool) {
			q := `query { Users { name age score } }`
			if args != "" {
				q = fmt.Sprintf(`query { Users(%s) { name age score } }`, args)
			}
			m, err := c08Exec(ctx, db, q)
			if err != nil {
				add("no request fails or panics", q+": "+err.Error())
				return nil, false
			}
			rows, _ := m["Users"].([]map[string]any)
			return rows, true
		}
		join := func(parts ...string) string {
			var ps []string
			for _, p := range parts {
				if p != "" {
					ps = append(ps, p)
				}
			}
			return strings.Join(ps, ", ")
		}
		key := func(r map[string]any) string { b, _ := json.Marshal(r); return string(b) }
		// --- order + limit + offset = slice of the ordered listing
		for _, f := range filters {
			for _, o := range orders {
				full, ok := list(join(f, o))
				if !ok {
					continue
				}
				// the ordered listing is ordered: the first sort key never decreases (ASC) / increases (DESC) between
				// two non-null neighbours, and the key sequence is the same with and without the indexes
				{
					fld := strings.Fields(strings.TrimPrefix(strings.TrimPrefix(o, "order: ["), "order: {"))[0]
					fld = strings.TrimSuffix(strings.TrimPrefix(fld, "{"), ":")
					desc := strings.Contains(strings.SplitN(o, ",", 2)[0], "DESC")
					var seq []string
					var prev any
					unordered := false
					for _, r := range full {
						seq = append(seq, fmt.Sprint(r[fld]))
						cur := r[fld]
						if prev != nil && cur != nil {
							less := false
							if a, ok := c08Num(prev); ok {
								b, _ := c08Num(cur)
								less = b < a
							} else {
								less = fmt.Sprint(cur) < fmt.Sprint(prev)
							}
							if less != desc && fmt.Sprint(cur) != fmt.Sprint(prev) && !unordered {
								unordered = true
								add("an ordered listing is ordered by its first key", fmt.Sprintf("%s / %s: %v", f, o, full))
							}
						}
						if cur != nil {
							prev = cur
						}
					}
					cases++
					k := f + " / " + o
					if sname == "no index" {
						plainKeys[k] = strings.Join(seq, ",")
					} else if pk, ok := plainKeys[k]; ok && pk != strings.Join(seq, ",") {
						add("ordered listing: same key sequence with and without the indexes", fmt.Sprintf("%s: without %s, with %s", k, pk, strings.Join(seq, ",")))
					}
				}
				for _, lm := range limits {
					var la []string
					if lm.l > 0 {
						la = append(la, fmt.Sprintf("limit: %d", lm.l))
					}
					if lm.o > 0 {
						la = append(la, fmt.Sprintf("offset: %d", lm.o))
					}
					got, ok := list(join(f, o, strings.Join(la, ", ")))
					if !ok {
						continue
					}
					cases++
					lo := lm.o
					if lo > len(full) {
						lo = len(full)
					}
					hi := len(full)
					if lm.l > 0 && lo+lm.l < hi {
						hi = lo + lm.l
					}
					want := full[lo:hi]
					// compare the sort keys position by position (ties may be broken differently)
					same := len(got) == len(want)
					if same {
						gs, ws := map[string]int{}, map[string]int{}
						for i := range got {
							gs[key(got[i])]++
							ws[key(want[i])]++
						}
						// with ties at the cut the rows may differ; the multiset of sort keys must not
						field := strings.Fields(strings.TrimPrefix(strings.TrimPrefix(o, "order: ["), "order: {"))[0]
						field = strings.TrimPrefix(field, "{")
						field = strings.TrimSuffix(field, ":")
						for i := range got {
							if fmt.Sprint(got[i][field]) != fmt.Sprint(want[i][field]) {
								same = false
							}
						}
					}
					if !same {
						add("order + limit + offset = slice of the ordered listing", fmt.Sprintf("%s / %s / limit %d offset %d: listing %v, got %v", f, o, lm.l, lm.o, full, got))
					}
				}
			}
		}
		// --- aggregates over the listing
		for _, f := range filters {
			for _, lm := range []lim{{0, 0}, {2, 0}, {0, 1}, {2, 1}} {
				var la []string
				order := ""
				if lm.l > 0 || lm.o > 0 {
					order = `order: {age: ASC}`
				}
				if lm.l > 0 {
					la = append(la, fmt.Sprintf("limit: %d", lm.l))
				}
				if lm.o > 0 {
					la = append(la, fmt.Sprintf("offset: %d", lm.o))
				}
				args := join(f, order, strings.Join(la, ", "))
				rows, ok := list(args)
				if !ok {
					continue
				}
				unlimited, ok := list(f)
				if !ok {
					continue
				}
				// _count takes no order argument: the number of rows does not depend on the order
				m, err := c08Exec(ctx, db, fmt.Sprintf(`query { _count(Users: {%s}) }`, join(f, strings.Join(la, ", "))))
				cases++
				if err != nil {
					add("no request fails or panics", "_count "+args+": "+err.Error())
				} else if n, _ := c08Num(m["_count"]); int(n) != len(rows) {
					add("_count = number of listed rows", fmt.Sprintf("{%s}: _count %v, listing has %d rows", args, m["_count"], len(rows)))
				}
				for _, field := range []string{"age", "score"} {
					var vals []float64
					for _, r := range rows {
						if v, ok := c08Num(r[field]); ok {
							vals = append(vals, v)
						}
					}
					sum := 0.0
					for _, v := range vals {
						sum += v
					}
					fa := join(fmt.Sprintf("field: %s", field), args)
					m, err := c08Exec(ctx, db, fmt.Sprintf(`query { s: _sum(Users: {%s}) mi: _min(Users: {%s}) ma: _max(Users: {%s}) av: _avg(Users: {%s}) }`, fa, fa, fa, fa))
					cases += 4
					if err != nil {
						add("no request fails or panics", "aggregates "+fa+": "+err.Error())
						continue
					}
					if s, ok := c08Num(m["s"]); !ok || !c08Close(s, sum) {
						add("_sum = sum of the listed values", fmt.Sprintf("{%s}: _sum %v, listed values %v", fa, m["s"], vals))
					}
					if len(vals) == 0 {
						if m["mi"] != nil || m["ma"] != nil {
							add("_min / _max of no values = null", fmt.Sprintf("{%s}: _min %v _max %v", fa, m["mi"], m["ma"]))
						}
						continue
					}
					sorted := append([]float64{}, vals...)
					sort.Float64s(sorted)
					if v, ok := c08Num(m["mi"]); !ok || !c08Close(v, sorted[0]) {
						add("_min = least listed value", fmt.Sprintf("{%s}: _min %v, listed values %v", fa, m["mi"], vals))
					}
					if v, ok := c08Num(m["ma"]); !ok || !c08Close(v, sorted[len(sorted)-1]) {
						add("_max = greatest listed value", fmt.Sprintf("{%s}: _max %v, listed values %v", fa, m["ma"], vals))
					}
					// with a limit or offset the average is taken over the first non-null values, the other
					// aggregates over the first rows: the two readings only agree when no listed value is null
					nulls := 0
					for _, r := range unlimited {
						if _, ok := c08Num(r[field]); !ok {
							nulls++
						}
					}
					if (lm.l > 0 || lm.o > 0) && nulls > 0 {
						continue
					}
					if v, ok := c08Num(m["av"]); !ok || !c08Close(v, sum/float64(len(vals))) {
						add("_avg = sum / number of the listed non-null values", fmt.Sprintf("{%s}: _avg %v, listed values %v", fa, m["av"], vals))
					}
				}
			}
		}
		// --- grouping partitions the listing
		for _, f := range filters {
			rows, ok := list(f)
			if !ok {
				continue
			}
			q := `query { Users(groupBy: [name]) { name _count(_group: {}) _sum(_group: {field: age}) _group { age } } }`
			if f != "" {
				q = fmt.Sprintf(`query { Users(%s, groupBy: [name]) { name _count(_group: {}) _sum(_group: {field: age}) _group { age } } }`, f)
			}
			m, err := c08Exec(ctx, db, q)
			cases++
			if err != nil {
				add("no request fails or panics", q+": "+err.Error())
				continue
			}
			groups, _ := m["Users"].([]map[string]any)
			byName := map[string][]float64{}
			members := map[string]int{}
			for _, r := range rows {
				n := fmt.Sprint(r["name"])
				members[n]++
				if v, ok := c08Num(r["age"]); ok {
					byName[n] = append(byName[n], v)
				}
			}
			if len(groups) != len(members) {
				add("the groups partition the listing", fmt.Sprintf("%s: %d groups for %d distinct names", f, len(groups), len(members)))
			}
			for _, g := range groups {
				n := fmt.Sprint(g["name"])
				kids, _ := g["_group"].([]map[string]any)
				cnt, _ := c08Num(g["_count"])
				if len(kids) != members[n] || int(cnt) != members[n] {
					add("a group has the listed members; _count of a group = number of members", fmt.Sprintf("%s: group %s: %d members, _count %v, listing has %d", f, n, len(kids), g["_count"], members[n]))
				}
				sum := 0.0
				for _, v := range byName[n] {
					sum += v
				}
				if s, ok := c08Num(g["_sum"]); !ok || !c08Close(s, sum) {
					add("_sum of a group = sum over its members", fmt.Sprintf("%s: group %s: _sum %v, members' ages %v", f, n, g["_sum"], byName[n]))
				}
			}
		}
		// --- several aggregates over the same group with different filters: each one is computed over its own
		// filtered members, in either order of appearance
		type gf struct {
			src  string
			keep func(v float64) bool
		}
		gfs := []gf{{`{age: {_gt: 1}}`, func(v float64) bool { return v > 1 }}, {`{age: {_lt: 5}}`, func(v float64) bool { return v < 5 }},
			{`{age: {_ge: 2}}`, func(v float64) bool { return v >= 2 }}}
		for _, f1 := range gfs {
			for _, f2 := range gfs {
				for _, sumFirst := range []bool{true, false} {
					sel := fmt.Sprintf(`s: _sum(_group: {field: age, filter: %s})`, f1.src)
					av := fmt.Sprintf(`a: _avg(_group: {field: age, filter: %s})`, f2.src)
					if !sumFirst {
						sel, av = av, sel
					}
					q := fmt.Sprintf(`query { Users(groupBy: [name]) { name %s %s c: _count(_group: {filter: %s}) _group { age } } }`, sel, av, f2.src)
					m, err := c08Exec(ctx, db, q)
					cases++
					if err != nil {
						add("no request fails or panics", q+": "+err.Error())
						continue
					}
					groups, _ := m["Users"].([]map[string]any)
					for _, g := range groups {
						kids, _ := g["_group"].([]map[string]any)
						s1, s2, n2 := 0.0, 0.0, 0
						for _, k := range kids {
							if v, ok := c08Num(k["age"]); ok {
								if f1.keep(v) {
									s1 += v
								}
								if f2.keep(v) {
									s2 += v
									n2++
								}
							}
						}
						if v, ok := c08Num(g["s"]); !ok || !c08Close(v, s1) {
							add("_sum of a filtered group = sum over the members that pass its own filter", fmt.Sprintf("%s: group %v: _sum %v, want %v", q, g["name"], g["s"], s1))
						}
						if v, ok := c08Num(g["c"]); !ok || int(v) != n2 {
							add("_count of a filtered group = number of members that pass its own filter", fmt.Sprintf("%s: group %v: _count %v, want %d", q, g["name"], g["c"], n2))
						}
						wantAvg := 0.0
						if n2 > 0 {
							wantAvg = s2 / float64(n2)
						}
						if v, ok := c08Num(g["a"]); !ok || !c08Close(v, wantAvg) {
							add("_avg of a filtered group = average over the members that pass its own filter", fmt.Sprintf("%s: group %v: _avg %v, want %v", q, g["name"], g["a"], wantAvg))
						}
					}
				}
			}
		}
		db.Close()
	}
	out := map[string]any{"cases": cases, "problems": problems}
	data, _ := json.MarshalIndent(out, "", " ")
	if p := os.Getenv("VERIF_BOUND_OUT"); p != "" {
		os.WriteFile(p, data, 0o644)
	}
	t.Logf("C08 aggregate laws: cases=%d problems=%d", cases, len(problems))
	byLaw := map[string]int{}
	for _, p := range problems {
		byLaw[p.Schema+": "+p.Law]++
		if byLaw[p.Schema+": "+p.Law] <= 2 {
			t.Logf("%s: %s: %s", p.Schema, p.Law, p.What)
		}
	}
	for k, n := range byLaw {
		t.Logf("%4d  %s", n, k)
	}
	if len(problems) > 0 {
		t.Fail()
	}
}
