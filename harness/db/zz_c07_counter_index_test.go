// Probe for property C07 (injected with go test -overlay; never in /repo): a secondary index on a counter
// field must follow the value of the field, not the increments.

package db

import (
	"context"
	"fmt"
	"testing"
)

func TestGovcC07CounterIndex(t *testing.T) {
	ctx := context.Background()
	r := newReplica(t, ctx, "r", `type Users { name: String points: Int @crdt(type: pcounter) @index }`)
	defer r.db.Close()
	docID, err := r.create(ctx, `{"name":"a","points":10}`)
	if err != nil {
		t.Fatal(err)
	}
	rows := func(q string) int {
		res := r.db.ExecRequest(ctx, q)
		if len(res.GQL.Errors) > 0 {
			t.Errorf("C07: %s: %v", q, res.GQL.Errors[0])
			return -1
		}
		rs, _ := res.GQL.Data.(map[string]any)["Users"].([]map[string]any)
		return len(rs)
	}
	if n := rows(`query { Users(filter: {points: {_eq: 10}}) { name } }`); n != 1 {
		t.Fatalf("after create: points == 10 returns %d rows", n)
	}
	if err := r.update(ctx, docID, "points", int64(1)); err != nil {
		t.Fatal(err)
	}
	if n := rows(`query { Users(filter: {points: {_eq: 11}}) { name } }`); n != 1 {
		t.Errorf("C07: after incrementing the counter by 1 the filter points == 11 returns %d rows through the index (the document has points = 11)", n)
	}
	if n := rows(`query { Users(filter: {points: {_eq: 1}}) { name } }`); n != 0 {
		t.Errorf("C07: after incrementing the counter by 1 the filter points == 1 returns %d rows through the index (the index holds the increment)", n)
	}
	if err := r.update(ctx, docID, "points", int64(2)); err != nil {
		t.Errorf("C07: a second increment fails: %v", err)
	}
	_ = fmt.Sprint
}
