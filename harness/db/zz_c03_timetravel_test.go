// Bounded stand-in / replay for property C03 (injected with go test -overlay; never in /repo):
// a document with a register and a counter gets a linear history of updates; for every commit c the
// time-travel query at c must return what the ordinary query returned right after c, the counter must
// equal the sum of increments up to c, and running time-travel queries must not change the document's
// recorded heads.

package db

import (
	"context"
	"encoding/json"
	"fmt"
	"os"
	"testing"

	"github.com/sourcenetwork/defradb/client"
)

type c03Problem struct {
	History string `json:"history"`
	Commit  int    `json:"commit"`
	What    string `json:"what"`
}

func c03Query(ctx context.Context, db *DB, q string) (map[string]any, error) {
	res := db.ExecRequest(ctx, q)
	if len(res.GQL.Errors) > 0 {
		return nil, res.GQL.Errors[0]
	}
	m, _ := res.GQL.Data.(map[string]any)
	rows, _ := m["Users"].([]map[string]any)
	if len(rows) != 1 {
		return nil, fmt.Errorf("%d rows", len(rows))
	}
	return rows[0], nil
}

func TestGovcC03TimeTravel(t *testing.T) {
	maxLen := 4
	fmt.Sscanf(os.Getenv("VERIF_BOUND_L"), "%d", &maxLen)
	ctx := context.Background()
	var problems []c03Problem
	cases := 0
	// histories: every sequence over {set name, increment points} of length 1..maxLen
	var hist []string
	var rec func()
	run := func(h []string) {
		cases++
		r := newReplica(t, ctx, "r", mhSchema)
		defer r.db.Close()
		docID, err := r.create(ctx, `{"name":"v0","age":1,"points":1}`)
		if err != nil {
			t.Fatal(err)
		}
		type snap struct {
			cid    string
			name   any
			points any
		}
		var snaps []snap
		record := func() {
			hs, _ := r.docHeads(ctx, docID)
			row, err := c03Query(ctx, r.db, fmt.Sprintf(`query { Users(docID: %q) { name points } }`, docID))
			if err != nil || len(hs) != 1 {
				t.Fatalf("current query failed: %v heads=%d", err, len(hs))
			}
			snaps = append(snaps, snap{hs[0].String(), row["name"], row["points"]})
		}
		record()
		for i, op := range h {
			switch op {
			case "name":
				err = r.update(ctx, docID, "name", fmt.Sprintf("v%d", i+1))
			case "inc":
				err = r.update(ctx, docID, "points", int64(i+2))
			}
			if err != nil {
				t.Fatal(err)
			}
			record()
		}
		headsBefore, _ := r.docHeads(ctx, docID)
		for i, s := range snaps {
			row, err := c03Query(ctx, r.db, fmt.Sprintf(`query { Users(cid: %q, docID: %q) { name points } }`, s.cid, docID))
			if err != nil {
				problems = append(problems, c03Problem{fmt.Sprint(h), i, "time-travel query failed: " + err.Error()})
				continue
			}
			if fmt.Sprint(row["name"]) != fmt.Sprint(s.name) || fmt.Sprint(row["points"]) != fmt.Sprint(s.points) {
				problems = append(problems, c03Problem{fmt.Sprint(h), i, fmt.Sprintf("at commit %d: time travel shows name=%v points=%v, the ordinary query right after that commit showed name=%v points=%v", i, row["name"], row["points"], s.name, s.points)})
			}
		}
		headsAfter, _ := r.docHeads(ctx, docID)
		if fmt.Sprint(headsBefore) != fmt.Sprint(headsAfter) {
			problems = append(problems, c03Problem{fmt.Sprint(h), -1, fmt.Sprintf("time-travel queries changed the recorded heads: %v -> %v", headsBefore, headsAfter)})
		}
		// and the current state is still what it was
		row, err := c03Query(ctx, r.db, fmt.Sprintf(`query { Users(docID: %q) { name points } }`, docID))
		last := snaps[len(snaps)-1]
		if err != nil || fmt.Sprint(row["name"]) != fmt.Sprint(last.name) || fmt.Sprint(row["points"]) != fmt.Sprint(last.points) {
			problems = append(problems, c03Problem{fmt.Sprint(h), -1, fmt.Sprintf("current state changed after time-travel queries: %v (err %v)", row, err)})
		}
	}
	rec = func() {
		if len(hist) > 0 {
			run(append([]string{}, hist...))
		}
		if len(hist) == maxLen {
			return
		}
		for _, op := range []string{"name", "inc"} {
			hist = append(hist, op)
			rec()
			hist = hist[:len(hist)-1]
		}
	}
	rec()
	out := map[string]any{"max_history": maxLen, "cases": cases, "problems": problems}
	data, _ := json.MarshalIndent(out, "", " ")
	if p := os.Getenv("VERIF_BOUND_OUT"); p != "" {
		os.WriteFile(p, data, 0o644)
	}
	if len(problems) > 0 {
		t.Errorf("C03: %d problems, first: %+v", len(problems), problems[0])
	}
}

var _ = client.Active

// TestGovcC03MergeCommit: time travel to a commit that has two parents (a local update made after a
// concurrent remote branch was merged), and to a commit after it.  The state at that commit is the merge
// of both branches plus its own write.
func TestGovcC03MergeCommit(t *testing.T) {
	ctx := context.Background()
	a := newReplica(t, ctx, "a", mhSchema)
	b := newReplica(t, ctx, "b", mhSchema)
	defer a.db.Close()
	defer b.db.Close()
	docID, err := a.create(ctx, `{"name":"v0","age":1,"points":1}`)
	if err != nil {
		t.Fatal(err)
	}
	ha, _ := a.docHeads(ctx, docID)
	if err := deliver(ctx, a, b, docID, ha[0]); err != nil {
		t.Fatal(err)
	}
	if err := a.update(ctx, docID, "name", "fromA"); err != nil {
		t.Fatal(err)
	}
	if err := b.update(ctx, docID, "points", int64(5)); err != nil {
		t.Fatal(err)
	}
	hb, _ := b.docHeads(ctx, docID)
	if err := deliver(ctx, b, a, docID, hb[0]); err != nil {
		t.Fatal(err)
	}
	if hs, _ := a.docHeads(ctx, docID); len(hs) != 2 {
		t.Fatalf("expected two heads on a before the merging update, got %d", len(hs))
	}
	if err := a.update(ctx, docID, "age", int64(2)); err != nil {
		t.Fatal(err)
	}
	hm, _ := a.docHeads(ctx, docID)
	if len(hm) != 1 {
		t.Fatalf("expected one head after the merging update, got %d", len(hm))
	}
	want, err := c03Query(ctx, a.db, fmt.Sprintf(`query { Users(docID: %q) { name age points } }`, docID))
	if err != nil {
		t.Fatal(err)
	}
	got, err := c03Query(ctx, a.db, fmt.Sprintf(`query { Users(cid: %q, docID: %q) { name age points } }`, hm[0].String(), docID))
	if err != nil {
		t.Fatalf("C03: time travel to a commit with two parents failed: %v", err)
	}
	if fmt.Sprint(got) != fmt.Sprint(want) {
		t.Errorf("C03: at the merge commit: time travel %v, ordinary read right after it %v", got, want)
	}
}
