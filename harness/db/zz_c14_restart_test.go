// Bounded stand-in for property C14 (injected with go test -overlay; never in /repo): a history of schema,
// index and document operations is run on two stores; on one of them the database object is thrown away
// and a new one is opened over the same store at a chosen point ("restart").  From then on both must be
// indistinguishable: the same answers to the same queries, the same collection and index descriptions,
// and the same outcome for every later operation (identifiers handed out after the restart included).

package db

import (
	"context"
	"encoding/json"
	"fmt"
	"os"
	"sort"
	"strings"
	"testing"

	"github.com/sourcenetwork/corekv"
	"github.com/sourcenetwork/immutable"
	"github.com/sourcenetwork/immutable/enumerable"
	"github.com/sourcenetwork/lens/host-go/config/model"

	"github.com/sourcenetwork/defradb/acp/dac"
	"github.com/sourcenetwork/defradb/client"
)

// c14Lens: a lens registry without migrations (the histories define none); the package's own tests pass nil
// here, which only works for a database that is opened once
type c14Lens struct{}

func (c14Lens) Init(client.TxnSource)                                   {}
func (c14Lens) SetMigration(context.Context, string, model.Lens) error { return nil }
func (c14Lens) ReloadLenses(context.Context) error                     { return nil }
func (c14Lens) MigrateUp(_ context.Context, src enumerable.Enumerable[map[string]any], _ string) (enumerable.Enumerable[map[string]any], error) {
	return src, nil
}
func (c14Lens) MigrateDown(_ context.Context, src enumerable.Enumerable[map[string]any], _ string) (enumerable.Enumerable[map[string]any], error) {
	return src, nil
}

type c14Node struct {
	db    *DB
	store corekv.TxnStore
	ids   map[string]string // logical doc name -> docID
}

func c14Open(t *testing.T, ctx context.Context, store corekv.TxnStore) *DB {
	adminInfo, err := NewNACInfo(ctx, "", false)
	if err != nil {
		t.Fatal(err)
	}
	db, err := newDB(ctx, store, adminInfo, dac.NoDocumentACP, c14Lens{})
	if err != nil {
		t.Fatalf("C14: opening a database over an existing store failed: %v", err)
	}
	return db
}

// the operation alphabet; every operation is a function of the node only (same effect on both nodes)
var c14Ops = map[string]func(ctx context.Context, n *c14Node) error{
	"schemaUsers": func(ctx context.Context, n *c14Node) error {
		_, err := n.db.AddSchema(ctx, `type Users { name: String @index age: Int points: Int @crdt(type: pcounter) }`)
		return err
	},
	"schemaBooks": func(ctx context.Context, n *c14Node) error {
		_, err := n.db.AddSchema(ctx, `type Books { title: String rating: Float }`)
		return err
	},
	"createA": func(ctx context.Context, n *c14Node) error { return c14Create(ctx, n, "Users", "A", `{"name":"a","age":1,"points":1}`) },
	"createB": func(ctx context.Context, n *c14Node) error { return c14Create(ctx, n, "Users", "B", `{"name":"b","age":2,"points":2}`) },
	"createC": func(ctx context.Context, n *c14Node) error { return c14Create(ctx, n, "Users", "C", `{"name":"c","age":3,"points":3}`) },
	"createBook": func(ctx context.Context, n *c14Node) error {
		return c14Create(ctx, n, "Books", "K", `{"title":"t","rating":4.5}`)
	},
	"updateA": func(ctx context.Context, n *c14Node) error { return c14Update(ctx, n, "A", "name", "a2") },
	"incA":    func(ctx context.Context, n *c14Node) error { return c14Update(ctx, n, "A", "points", int64(5)) },
	"deleteB": func(ctx context.Context, n *c14Node) error {
		col, err := n.db.GetCollectionByName(ctx, "Users")
		if err != nil {
			return err
		}
		id, err := client.NewDocIDFromString(n.ids["B"])
		if err != nil {
			return err
		}
		_, err = col.Delete(ctx, id)
		return err
	},
	"indexAge": func(ctx context.Context, n *c14Node) error {
		col, err := n.db.GetCollectionByName(ctx, "Users")
		if err != nil {
			return err
		}
		_, err = col.CreateIndex(ctx, client.IndexCreateRequest{Fields: []client.IndexedFieldDescription{{Name: "age"}}})
		return err
	},
	"indexUniqueName": func(ctx context.Context, n *c14Node) error {
		col, err := n.db.GetCollectionByName(ctx, "Users")
		if err != nil {
			return err
		}
		_, err = col.CreateIndex(ctx, client.IndexCreateRequest{Unique: true, Fields: []client.IndexedFieldDescription{{Name: "points"}}})
		return err
	},
	"dropIndexAge": func(ctx context.Context, n *c14Node) error {
		col, err := n.db.GetCollectionByName(ctx, "Users")
		if err != nil {
			return err
		}
		idx, err := col.GetIndexes(ctx)
		if err != nil {
			return err
		}
		for _, i := range idx {
			if len(i.Fields) == 1 && i.Fields[0].Name == "age" {
				return col.DropIndex(ctx, i.Name)
			}
		}
		return fmt.Errorf("no index on age")
	},
	"patchAddField": func(ctx context.Context, n *c14Node) error {
		return n.db.PatchSchema(ctx, `[{ "op": "add", "path": "/Users/Fields/-", "value": {"Name": "email", "Kind": "String"} }]`,
			immutable.None[model.Lens](), true)
	},
}

func c14Create(ctx context.Context, n *c14Node, colName, key, js string) error {
	col, err := n.db.GetCollectionByName(ctx, colName)
	if err != nil {
		return err
	}
	doc, err := client.NewDocFromJSON([]byte(js), col.Definition())
	if err != nil {
		return err
	}
	if err := col.Create(ctx, doc); err != nil {
		return err
	}
	n.ids[key] = doc.ID().String()
	return nil
}

func c14Update(ctx context.Context, n *c14Node, key, field string, val any) error {
	col, err := n.db.GetCollectionByName(ctx, "Users")
	if err != nil {
		return err
	}
	id, err := client.NewDocIDFromString(n.ids[key])
	if err != nil {
		return err
	}
	doc, err := col.Get(ctx, id, false)
	if err != nil {
		return err
	}
	if err := doc.Set(field, val); err != nil {
		return err
	}
	return col.Update(ctx, doc)
}

var c14Queries = []string{
	`query { Users { _docID name age points } }`,
	`query { Users(filter: {name: {_eq: "a2"}}) { name age } }`,
	`query { Users(filter: {age: {_ge: 2}}) { name age } }`,
	`query { Users(order: {age: DESC}) { age } }`,
	`query { Users(showDeleted: true) { name _deleted } }`,
	`query { Books { title rating } }`,
	`query { commits { height fieldName } }`,
	`query { Users { name email } }`,
}

// c14Observe: everything a client can see; errors are part of the observation
func c14Observe(ctx context.Context, db *DB) []string {
	var out []string
	for _, q := range c14Queries {
		res := db.ExecRequest(ctx, q)
		if len(res.GQL.Errors) > 0 {
			out = append(out, q+" => error: "+res.GQL.Errors[0].Error())
			continue
		}
		m, _ := res.GQL.Data.(map[string]any)
		var rows []string
		for _, v := range m {
			if rs, ok := v.([]map[string]any); ok {
				for _, r := range rs {
					b, _ := json.Marshal(r)
					rows = append(rows, string(b))
				}
			}
		}
		if !strings.Contains(q, "order:") {
			sort.Strings(rows)
		}
		out = append(out, q+" => "+strings.Join(rows, " "))
	}
	cols, err := db.GetCollections(ctx, client.CollectionFetchOptions{IncludeInactive: immutable.Some(true)})
	if err != nil {
		out = append(out, "collections => error: "+err.Error())
	}
	var cs []string
	for _, c := range cols {
		b, _ := json.Marshal(c.Version())
		cs = append(cs, string(b))
		idx, err := c.GetIndexes(ctx)
		if err != nil {
			cs = append(cs, c.Name()+" indexes => error: "+err.Error())
			continue
		}
		ib, _ := json.Marshal(idx)
		cs = append(cs, c.Name()+" indexes => "+string(ib))
	}
	sort.Strings(cs)
	out = append(out, cs...)
	return out
}

type c14Problem struct {
	History string `json:"history"`
	Restart int    `json:"restart_after_step"`
	Step    int    `json:"step"`
	What    string `json:"what"`
}

func c14Run(t *testing.T, ctx context.Context, hist []string, restartAfter int) (problems []c14Problem) {
	_, _, storeA := c05NewDB(t, ctx)
	_, _, storeB := c05NewDB(t, ctx)
	dbA, dbB := c14Open(t, ctx, storeA), c14Open(t, ctx, storeB)
	a := &c14Node{db: dbA, store: storeA, ids: map[string]string{}}
	b := &c14Node{db: dbB, store: storeB, ids: map[string]string{}}
	defer func() { a.db.Close(); b.db.Close() }()
	h := strings.Join(hist, "; ")
	for step, name := range hist {
		op := func(ctx context.Context, n *c14Node) (err error) {
			defer func() {
				if r := recover(); r != nil {
					err = fmt.Errorf("PANIC: %v", r)
				}
			}()
			return c14Ops[name](ctx, n)
		}
		ea, eb := op(ctx, a), op(ctx, b)
		if (ea == nil) != (eb == nil) || (ea != nil && ea.Error() != eb.Error()) {
			problems = append(problems, c14Problem{h, restartAfter, step, fmt.Sprintf("%s: restarted node: %v, node that was never restarted: %v", name, ea, eb)})
			return
		}
		if step == restartAfter {
			// "restart": a new database object over the same store (the old one is no longer used)
			a.db.events.Close()
			a.db = c14Open(t, ctx, a.store)
		}
		if step >= restartAfter {
			oa, ob := c14Observe(ctx, a.db), c14Observe(ctx, b.db)
			for i := range oa {
				if i < len(ob) && oa[i] != ob[i] {
					problems = append(problems, c14Problem{h, restartAfter, step, fmt.Sprintf("after %s: restarted node sees %q, the other sees %q", name, oa[i], ob[i])})
				}
			}
			if len(oa) != len(ob) {
				problems = append(problems, c14Problem{h, restartAfter, step, fmt.Sprintf("after %s: %d observations on the restarted node, %d on the other", name, len(oa), len(ob))})
			}
			if len(problems) > 0 {
				return
			}
		}
	}
	return
}

// TestGovcC14Restart: a family of histories, each with the restart placed after every step.
func TestGovcC14Restart(t *testing.T) {
	ctx := context.Background()
	histories := [][]string{
		{"schemaUsers", "createA", "createB", "updateA", "incA", "deleteB", "createC"},
		{"schemaUsers", "createA", "indexAge", "createB", "indexUniqueName", "createC", "dropIndexAge", "updateA"},
		{"schemaUsers", "createA", "patchAddField", "createB", "schemaBooks", "createBook", "indexAge", "createC"},
		{"schemaBooks", "createBook", "schemaUsers", "createA", "indexUniqueName", "createB", "incA", "createC"},
		{"schemaUsers", "indexAge", "dropIndexAge", "indexAge", "createA", "createB", "patchAddField", "updateA", "createC"},
	}
	if os.Getenv("VERIF_BOUND_DIRECTED") == "full" {
		histories = append(histories,
			[]string{"schemaUsers", "createA", "createB", "createC", "deleteB", "indexUniqueName", "incA", "patchAddField", "updateA"},
			[]string{"schemaUsers", "patchAddField", "indexAge", "createA", "schemaBooks", "createB", "dropIndexAge", "createBook", "createC"},
		)
	}
	var problems []c14Problem
	cases := 0
	for _, h := range histories {
		for r := 0; r < len(h)-1; r++ {
			cases++
			problems = append(problems, c14Run(t, ctx, h, r)...)
		}
	}
	out := map[string]any{"cases": cases, "problems": problems}
	data, _ := json.MarshalIndent(out, "", " ")
	if p := os.Getenv("VERIF_BOUND_OUT"); p != "" {
		os.WriteFile(p, data, 0o644)
	}
	t.Logf("C14 restart: cases=%d problems=%d", cases, len(problems))
	for i, p := range problems {
		if i < 10 {
			t.Logf("%s [restart after step %d] @%d: %s", p.History, p.Restart, p.Step, p.What)
		}
	}
	if len(problems) > 0 {
		t.Fail()
	}
}
