// Replay for property C11 (injected with go test -overlay; never in /repo): a document created with
// document-level encryption; a field that was not set at creation is set by a later update.  No block of
// the shared blockstore may contain the plaintext of that value.

package db

import (
	"bytes"
	"context"
	"testing"

	"github.com/sourcenetwork/defradb/client"
	"github.com/sourcenetwork/defradb/internal/datastore"
)

func c11BlocksContaining(t *testing.T, ctx context.Context, db *DB, secret string) int {
	bs := datastore.BlockstoreFrom(db.rootstore)
	ch, err := bs.AllKeysChan(ctx)
	if err != nil {
		t.Fatal(err)
	}
	n := 0
	for k := range ch {
		b, err := bs.Get(ctx, k)
		if err != nil {
			t.Fatal(err)
		}
		if bytes.Contains(b.RawData(), []byte(secret)) {
			n++
		}
	}
	return n
}

func TestGovcC11FieldFirstSetByUpdate(t *testing.T) {
	ctx := context.Background()
	r := newReplica(t, ctx, "r", `type Users { name: String email: String }`)
	defer r.db.Close()
	doc, err := client.NewDocFromJSON([]byte(`{"name":"SECRETNAME0001"}`), r.col.Definition())
	if err != nil {
		t.Fatal(err)
	}
	if err := r.col.Create(ctx, doc, client.CreateDocEncrypted(true)); err != nil {
		t.Fatal(err)
	}
	if n := c11BlocksContaining(t, ctx, r.db, "SECRETNAME0001"); n != 0 {
		t.Fatalf("C11: the creating write left the plaintext name in %d shared block(s)", n)
	}
	// update of a field that was set at creation: inherits the encryption of its previous head
	if err := doc.Set("name", "SECRETNAME0002"); err != nil {
		t.Fatal(err)
	}
	if err := r.col.Update(ctx, doc); err != nil {
		t.Fatal(err)
	}
	if n := c11BlocksContaining(t, ctx, r.db, "SECRETNAME0002"); n != 0 {
		t.Errorf("C11: the update of a field set at creation left its plaintext in %d shared block(s)", n)
	}
	// first write of a field of the same encrypted document
	if err := doc.Set("email", "SECRETMAIL0003"); err != nil {
		t.Fatal(err)
	}
	if err := r.col.Update(ctx, doc); err != nil {
		t.Fatal(err)
	}
	if n := c11BlocksContaining(t, ctx, r.db, "SECRETMAIL0003"); n != 0 {
		t.Errorf("C11: a field first set by an update of a document-level encrypted document is stored in clear in %d shared block(s)", n)
	}
	// the node that holds the key reads back exactly the written values
	row, err := c03Query(ctx, r.db, `query { Users { name email } }`)
	if err != nil || row["name"] != "SECRETNAME0002" || row["email"] != "SECRETMAIL0003" {
		t.Errorf("C11: the writer reads back %v (err %v)", row, err)
	}
}
