// Replay for property C20 (injected with go test -overlay; never in /repo): a GraphQL subscription yields one
// result for every committed change that matches it - and none for changes of other collections.
package db

import (
	"context"
	"fmt"
	"testing"
	"time"

	"github.com/sourcenetwork/defradb/client"
)

func TestGovcC20SubscriptionOtherCollection(t *testing.T) {
	ctx, cancel := context.WithCancel(context.Background())
	defer cancel()
	db, _, _ := c05NewDB(t, ctx)
	defer db.Close()
	if _, err := db.AddSchema(ctx, `type Users { name: String age: Int } type Items { name: String rank: Int }`); err != nil {
		t.Fatal(err)
	}
	users, _ := db.GetCollectionByName(ctx, "Users")
	items, _ := db.GetCollectionByName(ctx, "Items")
	res := db.ExecRequest(ctx, `subscription { Users { name age } }`)
	if len(res.GQL.Errors) > 0 || res.Subscription == nil {
		t.Fatalf("subscription: %v", res.GQL.Errors)
	}
	var got []string
	done := make(chan struct{})
	go func() {
		defer close(done)
		for r := range res.Subscription {
			got = append(got, fmt.Sprintf("data=%v errors=%v", r.Data, r.Errors))
		}
	}()
	create := func(col client.Collection, js string) {
		doc, err := client.NewDocFromJSON([]byte(js), col.Definition())
		if err != nil {
			t.Fatal(err)
		}
		if err := col.Create(ctx, doc); err != nil {
			t.Fatal(err)
		}
	}
	create(items, `{"name":"i1","rank":3}`)
	create(users, `{"name":"u1","age":4}`)
	create(items, `{"name":"i2","rank":5}`)
	time.Sleep(1500 * time.Millisecond)
	cancel()
	<-done
	if len(got) != 1 {
		t.Errorf("C20: one user and two items were created; the subscription on Users yielded %d results: %v", len(got), got)
	}
}
