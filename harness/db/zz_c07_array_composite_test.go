// Probe of a listed known finding of property C07 (injected with go test -overlay; never in /repo): a composite
// index whose second field is an array holds one entry per array element, so a document whose array is empty
// (or absent) has no entry at all and is not returned by a filter on the first field that the index serves.
package db

import (
	"context"
	"testing"
)

func TestGovcC07CompositeArrayIndexEmptyArray(t *testing.T) {
	ctx := context.Background()
	count := func(schema string) int {
		db, _, _ := c05NewDB(t, ctx)
		defer db.Close()
		c05Users(t, ctx, db, schema,
			`{"name":"a","tags":["x","y"]}`,
			`{"name":"a","tags":[]}`,
			`{"name":"a"}`,
		)
		res := db.ExecRequest(ctx, `query { Users(filter: {name: {_eq: "a"}}) { name } }`)
		if len(res.GQL.Errors) > 0 {
			t.Fatal(res.GQL.Errors[0])
		}
		rows, _ := res.GQL.Data.(map[string]any)["Users"].([]map[string]any)
		return len(rows)
	}
	plain := count(`type Users { name: String tags: [String!] }`)
	indexed := count(`type Users @index(includes: [{field: "name"}, {field: "tags"}]) { name: String tags: [String!] }`)
	if plain != indexed {
		t.Errorf("C07: filter on the first field of a composite index (name, tags): %d documents without the index, %d with it", plain, indexed)
	}
}
