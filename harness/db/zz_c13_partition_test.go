// Probe for property C13 (injected with go test -overlay; never in /repo): the identifiers assigned to a set
// of type definitions do not depend on whether they were added in one call or several, nor on their order.

package db

import (
	"context"
	"encoding/json"
	"fmt"
	"os"
	"sort"
	"strings"
	"testing"

	"github.com/sourcenetwork/immutable"

	"github.com/sourcenetwork/defradb/client"
)

func c13IDs(t *testing.T, ctx context.Context, sdls ...string) string {
	_, _, store := c05NewDB(t, ctx)
	db := c14Open(t, ctx, store)
	defer db.Close()
	for _, s := range sdls {
		if _, err := db.AddSchema(ctx, s); err != nil {
			t.Fatalf("AddSchema(%q): %v", s, err)
		}
	}
	cols, err := db.GetCollections(ctx, client.CollectionFetchOptions{IncludeInactive: immutable.Some(true)})
	if err != nil {
		t.Fatal(err)
	}
	var out []string
	for _, c := range cols {
		out = append(out, c.Name()+"="+c.Version().VersionID+"/"+c.Version().CollectionID)
	}
	sort.Strings(out)
	return strings.Join(out, " ")
}

type c13Case struct {
	Name   string     `json:"name"`
	Calls  [][]string `json:"-"`
	Differ []string   `json:"differ"`
	Error  string     `json:"error,omitempty"`
}

func c13Diff(a, b string) []string {
	am, bm := map[string]string{}, map[string]string{}
	for _, x := range strings.Fields(a) {
		kv := strings.SplitN(x, "=", 2)
		am[kv[0]] = kv[1]
	}
	for _, x := range strings.Fields(b) {
		kv := strings.SplitN(x, "=", 2)
		bm[kv[0]] = kv[1]
	}
	var d []string
	for k, v := range am {
		if bm[k] != v {
			d = append(d, k)
		}
	}
	for k := range bm {
		if _, ok := am[k]; !ok {
			d = append(d, k)
		}
	}
	sort.Strings(d)
	return d
}

// TestGovcC13Partition: for several families of type definitions, every permutation-like reordering of the SDL
// and every split into several AddSchema calls must assign the same identifiers as the reference call.
func TestGovcC13Partition(t *testing.T) {
	ctx := context.Background()
	a := `type A { name: String b: B @primary }`
	b := `type B { name: String a: A }`
	c := `type C { name: String d: D @primary }`
	d := `type D { name: String c: C toA: A @primary }`
	x := `type X { name: String next: Y @primary prev: Z }`
	y := `type Y { name: String next: Z @primary prev: X }`
	z := `type Z { name: String next: X @primary prev: Y }`
	s1 := `type S { name: String boss: S }`
	p := `type P { title: String }`
	q := `type Q { rating: Float }`
	join := func(xs ...string) string { return strings.Join(xs, "\n") }
	type variant struct {
		name  string
		ref   []string
		other []string
	}
	variants := []variant{
		{"two circles and a one-directional relation between them: reversed SDL", []string{join(a, b, c, d)}, []string{join(d, c, b, a)}},
		{"two circles and a one-directional relation between them: two calls", []string{join(a, b, c, d)}, []string{join(a, b), join(c, d)}},
		{"three-cycle: rotated SDL", []string{join(x, y, z)}, []string{join(z, x, y)}},
		{"three-cycle: reversed SDL", []string{join(x, y, z)}, []string{join(z, y, x)}},
		{"self reference with independent types: two calls", []string{join(s1, p, q)}, []string{join(q), join(p, s1)}},
		{"independent types: three calls", []string{join(p, q, s1)}, []string{s1, q, p}},
		{"circle plus independent type: two calls", []string{join(a, b, p)}, []string{p, join(b, a)}},
	}
	// every order of the type definitions inside one SDL gives the same identifiers: two circles joined by a
	// one-directional relation (in either direction between the circles), and the three-cycle
	d2 := `type D { name: String c: C }`
	a2 := `type A { name: String b: B @primary toC: C @primary }`
	var perms func(xs []string, k int, f func([]string))
	perms = func(xs []string, k int, f func([]string)) {
		if k == len(xs) {
			f(append([]string{}, xs...))
			return
		}
		for i := k; i < len(xs); i++ {
			xs[k], xs[i] = xs[i], xs[k]
			perms(xs, k+1, f)
			xs[k], xs[i] = xs[i], xs[k]
		}
	}
	for _, fam := range []struct {
		name  string
		types []string
	}{
		{"two circles, relation from the later circle to the earlier one", []string{a, b, c, d}},
		{"two circles, relation from the earlier circle to the later one", []string{a2, b, c, d2}},
		{"three-cycle", []string{x, y, z}},
		{"circle whose member also points at an independent type (after the circle partner)", []string{
			`type A { name: String b: B @primary p: P @primary }`, b, p}},
		{"circle whose member also points at an independent type (before the circle partner)", []string{
			`type A { name: String p: P @primary b: B @primary }`, b, p}},
		{"two doubly linked pairs, two-sided relation from the earlier pair to the later one", []string{
			`type K { name: String l1: L @primary @relation(name:"r1") l2: L @relation(name:"r2") m: M @primary @relation(name:"r5") }`,
			`type L { name: String k1: K @relation(name:"r1") k2: K @primary @relation(name:"r2") }`,
			`type M { name: String n1: N @primary @relation(name:"r3") n2: N @relation(name:"r4") k: K @relation(name:"r5") }`,
			`type N { name: String m1: M @relation(name:"r3") m2: M @primary @relation(name:"r4") }`}},
		{"two doubly linked pairs, two-sided relation from the later pair to the earlier one", []string{
			`type U { name: String v1: V @primary @relation(name:"r1") v2: V @relation(name:"r2") g: G @primary @relation(name:"r5") }`,
			`type V { name: String u1: U @relation(name:"r1") u2: U @primary @relation(name:"r2") }`,
			`type G { name: String h1: H @primary @relation(name:"r3") h2: H @relation(name:"r4") u: U @relation(name:"r5") }`,
			`type H { name: String g1: G @relation(name:"r3") g2: G @primary @relation(name:"r4") }`}},
	} {
		n := 0
		perms(append([]string{}, fam.types...), 0, func(order []string) {
			n++
			if n == 1 {
				return
			}
			variants = append(variants, variant{fmt.Sprintf("%s: SDL order %d", fam.name, n), []string{join(fam.types...)}, []string{join(order...)}})
		})
	}
	var out []c13Case
	for _, v := range variants {
		ref := c13IDs(t, ctx, v.ref...)
		other := c13IDs(t, ctx, v.other...)
		cs := c13Case{Name: v.name, Differ: c13Diff(ref, other)}
		out = append(out, cs)
		if len(cs.Differ) > 0 {
			t.Errorf("C13: %s: identifiers of %v differ\n  reference: %s\n  variant:   %s", v.name, cs.Differ, ref, other)
		}
	}
	data, _ := json.MarshalIndent(map[string]any{"cases": len(out), "results": out}, "", " ")
	if f := os.Getenv("VERIF_BOUND_OUT"); f != "" {
		os.WriteFile(f, data, 0o644)
	}
}
