// Multi-replica merge harness (injected into package db with `go test -overlay`; never in /repo).
//
// BOUNDED stand-in for the DAG walk of properties C01/C02/C04 (executeMerge -> loadComposites /
// mergeComposites), which is outside the reach of the contract engine (recursion over pointer-holding
// maps and container/list).  Replicas are real DBs over in-memory stores; a delivery copies the
// ancestor closure of a commit into the receiver's blockstore (what net.syncDAG does) and calls the
// real executeMerge synchronously.

package db

import (
	"math/rand"
	"context"
	"encoding/json"
	"fmt"
	"os"
	"sort"
	"strings"
	"testing"

	"github.com/ipfs/go-cid"
	"github.com/sourcenetwork/corekv"

	"github.com/sourcenetwork/defradb/client"
	"github.com/sourcenetwork/defradb/event"
	"github.com/sourcenetwork/defradb/internal/core"
	coreblock "github.com/sourcenetwork/defradb/internal/core/block"
	"github.com/sourcenetwork/defradb/internal/datastore"
	"github.com/sourcenetwork/defradb/internal/keys"
)

const mhSchema = `type Users { name: String age: Int points: Int @crdt(type: pcounter) }`

// the same collection with secondary indexes (VERIF_MERGE_INDEXED=1): merges must keep them in step (C07)
const mhSchemaIndexed = `type Users { name: String @index age: Int @index points: Int @crdt(type: pcounter) }`

// VERIF_MERGE_NOPOINTS=1: the document is created without a counter value and every replica increments by the
// same amount, so that two concurrent updates differ in nothing but their identity
func mhNoPoints() bool { return os.Getenv("VERIF_MERGE_NOPOINTS") == "1" }

func mhActiveSchema() string {
	if os.Getenv("VERIF_MERGE_INDEXED") == "1" {
		return mhSchemaIndexed
	}
	return mhSchema
}

// mhIndexProblems: on a replica with indexes, what a filter on an indexed field returns (served from the
// index) must be what the full listing contains for that value
func mhIndexProblems(ctx context.Context, r *replica) []string {
	var ps []string
	q := func(s string) ([]map[string]any, error) {
		var rows []map[string]any
		var err error
		func() {
			defer func() {
				if rec := recover(); rec != nil {
					err = fmt.Errorf("PANIC: %v", rec)
				}
			}()
			res := r.db.ExecRequest(ctx, s)
			if len(res.GQL.Errors) > 0 {
				err = res.GQL.Errors[0]
				return
			}
			m, _ := res.GQL.Data.(map[string]any)
			rows, _ = m["Users"].([]map[string]any)
		}()
		return rows, err
	}
	all, err := q(`query { Users { _docID name points } }`)
	if err != nil {
		return []string{fmt.Sprintf("C07: %s listing failed: %v", r.name, err)}
	}
	for _, v := range []string{`"x"`, `"y"`, `"a"`, `null`} {
		got, err := q(fmt.Sprintf(`query { Users(filter: {name: {_eq: %s}}) { _docID name points } }`, v))
		if err != nil {
			ps = append(ps, fmt.Sprintf("C07: %s: name == %s through the index failed: %v", r.name, v, err))
			continue
		}
		want := 0
		for _, row := range all {
			if (v == "null" && row["name"] == nil) || (v != "null" && fmt.Sprintf("%q", row["name"]) == v) {
				want++
			}
		}
		if len(got) != want {
			ps = append(ps, fmt.Sprintf("C07: %s: name == %s: %d rows through the index, %d in the listing %v", r.name, v, len(got), want, all))
		}
	}
	return ps
}

type replica struct {
	name  string
	db    *DB
	ctl   *faultCtl
	store corekv.TxnStore
	col   client.Collection
}

func newReplica(t *testing.T, ctx context.Context, name, schema string) *replica {
	db, ctl, store := c05NewDB(t, ctx)
	if _, err := db.AddSchema(ctx, schema); err != nil {
		t.Fatal(err)
	}
	col, err := db.GetCollectionByName(ctx, "Users")
	if err != nil {
		t.Fatal(err)
	}
	return &replica{name: name, db: db, ctl: ctl, store: store, col: col}
}

// docHeads: the composite heads of a document as stored in the headstore.
func (r *replica) docHeads(ctx context.Context, docID string) ([]cid.Cid, error) {
	txn, err := r.db.NewTxn(ctx, true)
	if err != nil {
		return nil, err
	}
	defer txn.Discard(ctx)
	hs := coreblock.NewHeadSet(datastore.MustGetFromClientTxn(txn).Headstore(),
		keys.HeadstoreDocKey{DocID: docID, FieldID: core.COMPOSITE_NAMESPACE})
	cids, _, err := hs.List(ctx)
	return cids, err
}

func (r *replica) create(ctx context.Context, js string) (string, error) {
	doc, err := client.NewDocFromJSON([]byte(js), r.col.Definition())
	if err != nil {
		return "", err
	}
	if err := r.col.Create(ctx, doc); err != nil {
		return "", err
	}
	return doc.ID().String(), nil
}

func (r *replica) update(ctx context.Context, docID string, field string, val any) error {
	id, err := client.NewDocIDFromString(docID)
	if err != nil {
		return err
	}
	doc, err := r.col.Get(ctx, id, false)
	if err != nil {
		return err
	}
	if err := doc.Set(field, val); err != nil {
		return err
	}
	return r.col.Update(ctx, doc)
}

func (r *replica) delete(ctx context.Context, docID string) error {
	id, err := client.NewDocIDFromString(docID)
	if err != nil {
		return err
	}
	_, err = r.col.Delete(ctx, id)
	return err
}

// copyClosure copies the block c and everything it links to (parents, field blocks, signature) from
// one blockstore to the other, as net.syncDAG would fetch them.
func copyClosure(ctx context.Context, from, to *replica, c cid.Cid, seen map[cid.Cid]bool) error {
	if seen[c] {
		return nil
	}
	seen[c] = true
	fb := datastore.BlockstoreFrom(from.store)
	tb := datastore.BlockstoreFrom(to.store)
	blk, err := fb.Get(ctx, c)
	if err != nil {
		return fmt.Errorf("source lacks block %s: %w", c, err)
	}
	has, err := tb.Has(ctx, c)
	if err != nil {
		return err
	}
	if !has {
		if err := tb.Put(ctx, blk); err != nil {
			return err
		}
	}
	b, err := coreblock.GetFromBytes(blk.RawData())
	if err != nil {
		return nil // signature blocks etc. are leaves
	}
	for _, l := range b.AllLinks() {
		if err := copyClosure(ctx, from, to, l.Cid, seen); err != nil {
			return err
		}
	}
	if b.Signature != nil {
		if err := copyClosure(ctx, from, to, b.Signature.Cid, seen); err != nil {
			return err
		}
	}
	return nil
}

// deliver: what a pushed log does on the receiver once the DAG is synced.
func deliver(ctx context.Context, from, to *replica, docID string, c cid.Cid) error {
	if err := copyClosure(ctx, from, to, c, map[cid.Cid]bool{}); err != nil {
		return err
	}
	return to.merge(ctx, docID, c)
}

// dupQueued: diagnosis used to classify a violating history: does the DAG walk of this merge queue
// some commit more than once (known finding C02-diamond-requeue)?
func (r *replica) dupQueued(ctx context.Context, docID string, c cid.Cid) bool {
	col := r.col.(*collection)
	ctx2, txn, err := ensureContextTxn(ctx, r.db, true)
	if err != nil {
		return false
	}
	defer txn.Discard(ctx2)
	mt, err := getHeadsAsMergeTarget(ctx2, keys.HeadstoreDocKey{DocID: docID, FieldID: core.COMPOSITE_NAMESPACE})
	if err != nil {
		return false
	}
	// second diagnosis: the merge target has heads of different heights (known finding
	// C01-merge-target-unequal-heads: getHeadsAsMergeTarget assumes they are all equal)
	var hh uint64
	first := true
	for _, b := range mt.heads {
		if first {
			hh, first = b.Delta.GetPriority(), false
		} else if b.Delta.GetPriority() != hh {
			sawUnequalHeads = true
		}
	}
	mp, err := r.db.newMergeProcessor(ctx2, col)
	if err != nil {
		return false
	}
	if err := mp.loadComposites(ctx2, c, mt); err != nil {
		return false
	}
	seen := map[cid.Cid]bool{}
	for e := mp.composites.Front(); e != nil; e = e.Next() {
		l, err := e.Value.(*coreblock.Block).GenerateLink()
		if err != nil {
			continue
		}
		if seen[l.Cid] {
			return true
		}
		seen[l.Cid] = true
	}
	return false
}

var sawDupQueued, sawUnequalHeads bool

func (r *replica) merge(ctx context.Context, docID string, c cid.Cid) error {
	col := r.col.(*collection)
	if r.dupQueued(ctx, docID, c) {
		sawDupQueued = true
	}
	return r.db.executeMerge(ctx, col, event.Merge{DocID: docID, Cid: c, CollectionID: col.Version().CollectionID})
}

// view: what a user can observe of a document: fields (showDeleted), deleted status, heads.
func (r *replica) view(ctx context.Context, docID string) string {
	id, err := client.NewDocIDFromString(docID)
	if err != nil {
		return "bad id"
	}
	var sb strings.Builder
	doc, err := r.col.Get(ctx, id, true)
	if err != nil {
		fmt.Fprintf(&sb, "get: %v;", err)
	} else {
		m, err := doc.ToMap()
		if err != nil {
			fmt.Fprintf(&sb, "tomap: %v;", err)
		}
		ks := make([]string, 0, len(m))
		for k := range m {
			ks = append(ks, k)
		}
		sort.Strings(ks)
		for _, k := range ks {
			fmt.Fprintf(&sb, "%s=%v;", k, m[k])
		}
	}
	if _, err := r.col.Get(ctx, id, false); err != nil {
		sb.WriteString("live=false;")
	} else {
		sb.WriteString("live=true;")
	}
	hs, err := r.docHeads(ctx, docID)
	if err != nil {
		fmt.Fprintf(&sb, "heads: %v", err)
	}
	var hss []string
	for _, h := range hs {
		hss = append(hss, h.String())
	}
	sort.Strings(hss)
	fmt.Fprintf(&sb, "heads=%s", strings.Join(hss, ","))
	return sb.String()
}

// ---------------------------------------------------------------- C05: a merge under storage faults

// mergeBranchSetup builds: r1 and r2 create the same document; r1 updates it (u1), r2 updates it (b).
// The operation under faults is: r1 receives b (its parent is known on r1 but is no longer a head).
func mergeBranchSetup(t *testing.T, ctx context.Context) (r1, r2 *replica, docID string, b cid.Cid) {
	r1 = newReplica(t, ctx, "r1", `type Users { name: String age: Int }`)
	r2 = newReplica(t, ctx, "r2", `type Users { name: String age: Int }`)
	var err error
	docID, err = r1.create(ctx, `{"name":"a","age":1}`)
	if err != nil {
		t.Fatal(err)
	}
	id2, err := r2.create(ctx, `{"name":"a","age":1}`)
	if err != nil || id2 != docID {
		t.Fatalf("replicas disagree on the genesis document: %v %s %s", err, docID, id2)
	}
	if err := r1.update(ctx, docID, "name", "c"); err != nil {
		t.Fatal(err)
	}
	if err := r2.update(ctx, docID, "name", "b"); err != nil {
		t.Fatal(err)
	}
	hs, err := r2.docHeads(ctx, docID)
	if err != nil || len(hs) != 1 {
		t.Fatalf("r2 heads: %v %v", hs, err)
	}
	b = hs[0]
	if err := copyClosure(ctx, r2, r1, b, map[cid.Cid]bool{}); err != nil {
		t.Fatal(err)
	}
	return
}

func TestGovcC05MergeFaults(t *testing.T) {
	fn := os.Getenv("VERIF_C05_FUNC")
	if fn != "" {
		hit := false
		for _, f := range []string{"coreblock.updateHeads", "coreblock.ProcessBlock", "(*db.DB).executeMerge", "(*coreblock.heads).Write", "(*coreblock.heads).Replace", "db.syncIndexedDoc"} {
			hit = hit || f == fn
		}
		if !hit {
			t.Skip("no merge scenario drives " + fn)
		}
	}
	ctx := context.Background()
	r1, _, docID, b := mergeBranchSetup(t, ctx)
	before := dumpStore(t, ctx, r1.store)
	r1.ctl.armed = true
	if err := r1.merge(ctx, docID, b); err != nil {
		t.Fatalf("fault-free merge failed: %v", err)
	}
	r1.ctl.armed = false
	n := r1.ctl.count
	after := dumpStore(t, ctx, r1.store)
	var viols []c05Violation
	fired := 0
	for k := 1; k <= n; k++ {
		r1, _, docID, b := mergeBranchSetup(t, ctx)
		if dumpStore(t, ctx, r1.store) != before {
			t.Fatal("setup not deterministic")
		}
		r1.ctl.failAt = k
		r1.ctl.armed = true
		err := r1.merge(ctx, docID, b)
		r1.ctl.armed = false
		if r1.ctl.fired {
			fired++
		}
		got := dumpStore(t, ctx, r1.store)
		switch {
		case err != nil && got != before:
			viols = append(viols, c05Violation{"MergeConcurrentBranch", k, r1.ctl.what, "error-but-state-changed", err.Error()})
		case err == nil && r1.ctl.fired && got != after:
			kind := "success-with-partial-effect"
			if got == before {
				kind = "success-with-no-effect"
			}
			viols = append(viols, c05Violation{"MergeConcurrentBranch", k, r1.ctl.what, kind,
				fmt.Sprintf("storage op #%d (%s) failed, executeMerge returned nil; view=%s", k, r1.ctl.what, r1.view(ctx, docID))})
		}
	}
	out := map[string]any{"scenarios": []string{"MergeConcurrentBranch"}, "cases": n, "faults_fired": fired, "violations": viols}
	data, _ := json.MarshalIndent(out, "", " ")
	if p := os.Getenv("VERIF_C05_OUT"); p != "" {
		os.WriteFile(p+".merge", data, 0o644)
	}
	t.Log(string(data))
	if len(viols) > 0 {
		t.Fatalf("C05 violated in merge: %d fault points", len(viols))
	}
}

// ---------------------------------------------------------------- C01: replay of (*LWW).setValue#ensures "a merge fails only when the store fails"

// TestGovcC01NullTie: two replicas update the same register concurrently at the same height, one of
// them to null.  Merging the non-null write into the replica that holds null must not fail.
func TestGovcC01NullTie(t *testing.T) {
	ctx := context.Background()
	r1 := newReplica(t, ctx, "r1", `type Users { name: String age: Int }`)
	r2 := newReplica(t, ctx, "r2", `type Users { name: String age: Int }`)
	docID, err := r1.create(ctx, `{"name":"a","age":1}`)
	if err != nil {
		t.Fatal(err)
	}
	if id2, err := r2.create(ctx, `{"name":"a","age":1}`); err != nil || id2 != docID {
		t.Fatalf("genesis differs: %v", err)
	}
	if err := r1.update(ctx, docID, "name", nil); err != nil {
		t.Fatal(err)
	}
	if err := r2.update(ctx, docID, "name", "b"); err != nil {
		t.Fatal(err)
	}
	h2, _ := r2.docHeads(ctx, docID)
	h1, _ := r1.docHeads(ctx, docID)
	if err := deliver(ctx, r2, r1, docID, h2[0]); err != nil {
		t.Errorf("merge of a well-formed commit failed on the replica holding null: %v", err)
	}
	if err := deliver(ctx, r1, r2, docID, h1[0]); err != nil {
		t.Errorf("merge of a well-formed commit failed on the replica holding the value: %v", err)
	}
	v1, v2 := r1.view(ctx, docID), r2.view(ctx, docID)
	if v1 != v2 {
		t.Errorf("replicas diverge:\n r1: %s\n r2: %s", v1, v2)
	}
}

// ---------------------------------------------------------------- bounded enumeration (C01 / C02 / C04)

type bOp struct {
	kind string // name, inc, del, sync
	r    int    // acting replica (sync: source)
	to   int    // sync: destination
	val  any    // name: string or nil
}

func (o bOp) String() string {
	switch o.kind {
	case "name":
		return fmt.Sprintf("r%d.name=%v", o.r, o.val)
	case "inc":
		return fmt.Sprintf("r%d.points+=%v", o.r, o.val)
	case "del":
		return fmt.Sprintf("r%d.delete", o.r)
	}
	return fmt.Sprintf("sync(r%d>r%d)", o.r, o.to)
}

func bAlphabet(k int) []bOp {
	var ops []bOp
	for r := 0; r < k; r++ {
		ops = append(ops, bOp{kind: "name", r: r, val: "x"}, bOp{kind: "name", r: r, val: "y"}, bOp{kind: "name", r: r, val: nil},
			bOp{kind: "inc", r: r, val: mhIncOf(r)}, bOp{kind: "del", r: r})
		for t := 0; t < k; t++ {
			if t != r {
				ops = append(ops, bOp{kind: "sync", r: r, to: t})
			}
		}
	}
	return ops
}

func mhIncOf(r int) int64 {
	if mhNoPoints() {
		return 5
	}
	return int64(1 + r)
}

type bResult struct {
	DupQueued bool     `json:"dup_queued"`
	UnequalHeads bool  `json:"unequal_heads"`
	History   string   `json:"history"`
	Problems  []string `json:"problems"`
	MergeErrs []string `json:"merge_errors,omitempty"`
}

// runHistory executes one history on k fresh replicas and returns the list of property violations.
func runHistory(t *testing.T, ctx context.Context, k int, hist []bOp) (res bResult) {
	var names []string
	for _, o := range hist {
		names = append(names, o.String())
	}
	res = bResult{History: strings.Join(names, "; ")}
	sawDupQueued, sawUnequalHeads = false, false
	defer func() { res.DupQueued, res.UnequalHeads = sawDupQueued, sawUnequalHeads }()
	reps := make([]*replica, k)
	var docID string
	for i := range reps {
		reps[i] = newReplica(t, ctx, fmt.Sprintf("r%d", i), mhActiveSchema())
		genesis := `{"name":"a","age":1,"points":10}`
		if mhNoPoints() {
			genesis = `{"name":"a","age":1}`
		}
		id, err := reps[i].create(ctx, genesis)
		if err != nil {
			t.Fatal(err)
		}
		if i > 0 && id != docID {
			res.Problems = append(res.Problems, "C04/C13: genesis document ids differ")
		}
		docID = id
	}
	defer func() {
		for _, r := range reps {
			r.db.Close()
		}
	}()
	g0, _ := reps[0].docHeads(ctx, docID)
	for i := 1; i < k; i++ {
		gi, _ := reps[i].docHeads(ctx, docID)
		if len(g0) != 1 || len(gi) != 1 || g0[0] != gi[0] {
			res.Problems = append(res.Problems, "C04: genesis commits are not byte-identical across replicas")
		}
	}
	sumInc := int64(0)
	deleted := false
	syncHeads := func(from, to int) {
		hs, err := reps[from].docHeads(ctx, docID)
		if err != nil {
			res.Problems = append(res.Problems, "heads: "+err.Error())
			return
		}
		for _, h := range hs {
			if err := deliver(ctx, reps[from], reps[to], docID, h); err != nil {
				res.MergeErrs = append(res.MergeErrs, fmt.Sprintf("r%d>r%d %s: %v", from, to, h, err))
			}
		}
	}
	for _, o := range hist {
		r := reps[o.r]
		switch o.kind {
		case "name":
			if err := r.update(ctx, docID, "name", o.val); err != nil && !strings.Contains(err.Error(), "not found") {
				res.Problems = append(res.Problems, fmt.Sprintf("local op %s failed: %v", o, err))
			}
		case "inc":
			if err := r.update(ctx, docID, "points", o.val); err != nil {
				if !strings.Contains(err.Error(), "not found") {
					res.Problems = append(res.Problems, fmt.Sprintf("local op %s failed: %v", o, err))
				}
			} else {
				sumInc += o.val.(int64)
			}
		case "del":
			if err := r.delete(ctx, docID); err == nil {
				deleted = true
			}
		case "sync":
			syncHeads(o.r, o.to)
		}
	}
	// final exchange: two rounds of everybody -> everybody
	for round := 0; round < 2; round++ {
		for a := 0; a < k; a++ {
			for b := 0; b < k; b++ {
				if a != b {
					syncHeads(a, b)
				}
			}
		}
	}
	// redelivery: every composite commit known to a replica is delivered again to every other replica,
	// oldest first and newest first; nothing may change (C02: "no matter how often or in what order a
	// commit or any of its ancestors is delivered again")
	if os.Getenv("VERIF_BOUND_NOREDELIVER") == "" {
		before := make([]string, k)
		for i, r := range reps {
			before[i] = r.view(ctx, docID)
		}
		for a := 0; a < k; a++ {
			all := reps[a].allComposites(ctx, docID)
			for b := 0; b < k; b++ {
				if a == b {
					continue
				}
				for _, order := range [][]cid.Cid{all, reversed(all)} {
					for _, c := range order {
						if err := deliver(ctx, reps[a], reps[b], docID, c); err != nil {
							res.MergeErrs = append(res.MergeErrs, fmt.Sprintf("redelivery r%d>r%d %s: %v", a, b, c, err))
						}
					}
				}
			}
		}
		for i, r := range reps {
			if v := r.view(ctx, docID); v != before[i] {
				res.Problems = append(res.Problems, fmt.Sprintf("C02: redelivery of already merged commits changed r%d: {%s} -> {%s}", i, before[i], v))
				res.Problems = append(res.Problems, fmt.Sprintf("C01: redelivery of already merged commits changed r%d", i))
			}
		}
	}
	if len(res.MergeErrs) > 0 {
		res.Problems = append(res.Problems, fmt.Sprintf("C01: %d merges of well-formed commits failed (first: %s)", len(res.MergeErrs), res.MergeErrs[0]))
	}
	v0 := reps[0].view(ctx, docID)
	for i := 1; i < k; i++ {
		if vi := reps[i].view(ctx, docID); vi != v0 {
			res.Problems = append(res.Problems, fmt.Sprintf("C01: replicas diverge after quiescence: r0{%s} r%d{%s}", v0, i, vi))
		}
	}
	want := fmt.Sprintf("points=%d;", 10+sumInc)
	if mhNoPoints() {
		want = fmt.Sprintf("points=%d;", sumInc)
		if sumInc == 0 {
			want = ""
		}
	}
	for i, r := range reps {
		v := r.view(ctx, docID)
		if !strings.Contains(v, want) {
			res.Problems = append(res.Problems, fmt.Sprintf("C02: r%d counter is not initial+sum of increments (%s): %s", i, want, v))
		}
		if deleted && strings.Contains(v, "live=true") {
			res.Problems = append(res.Problems, fmt.Sprintf("C02: r%d shows a deleted document as live: %s", i, v))
		}
		for _, p := range dagProblems(ctx, r, docID) {
			res.Problems = append(res.Problems, fmt.Sprintf("C04: r%d %s", i, p))
		}
		if os.Getenv("VERIF_MERGE_INDEXED") == "1" {
			res.Problems = append(res.Problems, mhIndexProblems(ctx, r)...)
		}
	}
	return res
}

func reversed(c []cid.Cid) []cid.Cid {
	out := make([]cid.Cid, len(c))
	for i := range c {
		out[len(c)-1-i] = c[i]
	}
	return out
}

// allComposites: every composite commit reachable from the document's heads, oldest (lowest height) first
func (r *replica) allComposites(ctx context.Context, docID string) []cid.Cid {
	bs := datastore.BlockstoreFrom(r.store)
	heads, _ := r.docHeads(ctx, docID)
	seen := map[cid.Cid]uint64{}
	var walk func(c cid.Cid)
	walk = func(c cid.Cid) {
		if _, ok := seen[c]; ok {
			return
		}
		raw, err := bs.Get(ctx, c)
		if err != nil {
			return
		}
		b, err := coreblock.GetFromBytes(raw.RawData())
		if err != nil {
			return
		}
		seen[c] = b.Delta.GetPriority()
		for _, h := range b.Heads {
			walk(h.Cid)
		}
	}
	for _, h := range heads {
		walk(h)
	}
	var out []cid.Cid
	for c := range seen {
		out = append(out, c)
	}
	sort.Slice(out, func(i, j int) bool {
		if seen[out[i]] != seen[out[j]] {
			return seen[out[i]] < seen[out[j]]
		}
		return out[i].String() < out[j].String()
	})
	return out
}

// dagProblems checks the stored commit graph of one document on one replica.
func dagProblems(ctx context.Context, r *replica, docID string) []string {
	var ps []string
	bs := datastore.BlockstoreFrom(r.store)
	heads, err := r.docHeads(ctx, docID)
	if err != nil {
		return []string{"heads: " + err.Error()}
	}
	// walk the composite graph from the heads
	parentOf := map[cid.Cid]bool{}
	seen := map[cid.Cid]*coreblock.Block{}
	// field-level commits reachable from the merged composites, per field name
	fieldSeen := map[string]map[cid.Cid]bool{}
	fieldParent := map[cid.Cid]bool{}
	// the document-level commits that link a field-level commit (more than one: the same field commit was
	// made independently on two replicas - same value, same field parent)
	linkedFrom := map[cid.Cid]map[cid.Cid]bool{}
	var walkField func(name string, c cid.Cid)
	walkField = func(name string, c cid.Cid) {
		if fieldSeen[name] == nil {
			fieldSeen[name] = map[cid.Cid]bool{}
		}
		if fieldSeen[name][c] {
			return
		}
		fieldSeen[name][c] = true
		raw, err := bs.Get(ctx, c)
		if err != nil {
			return
		}
		fb, err := coreblock.GetFromBytes(raw.RawData())
		if err != nil {
			return
		}
		for _, h := range fb.Heads {
			fieldParent[h.Cid] = true
			walkField(name, h.Cid)
		}
	}
	var walk func(c cid.Cid) uint64
	walk = func(c cid.Cid) uint64 {
		if b, ok := seen[c]; ok {
			if b == nil {
				return 0
			}
			return b.Delta.GetPriority()
		}
		raw, err := bs.Get(ctx, c)
		if err != nil {
			seen[c] = nil
			ps = append(ps, fmt.Sprintf("link %s does not resolve to a stored block", c))
			return 0
		}
		b, err := coreblock.GetFromBytes(raw.RawData())
		if err != nil {
			seen[c] = nil
			ps = append(ps, fmt.Sprintf("block %s does not decode: %v", c, err))
			return 0
		}
		seen[c] = b
		if l, err := b.GenerateLink(); err != nil || l.Cid != c {
			ps = append(ps, fmt.Sprintf("block filed under %s hashes to %v", c, l.Cid))
		}
		maxp := uint64(0)
		for _, h := range b.Heads {
			parentOf[h.Cid] = true
			if p := walk(h.Cid); p > maxp {
				maxp = p
			}
		}
		for _, l := range b.Links {
			if _, err := bs.Get(ctx, l.Link.Cid); err != nil {
				ps = append(ps, fmt.Sprintf("field link %s of %s does not resolve", l.Link.Cid, c))
				continue
			}
			if linkedFrom[l.Link.Cid] == nil {
				linkedFrom[l.Link.Cid] = map[cid.Cid]bool{}
			}
			linkedFrom[l.Link.Cid][c] = true
			walkField(l.Name, l.Link.Cid)
		}
		if b.Delta.GetPriority() != maxp+1 {
			ps = append(ps, fmt.Sprintf("commit %s has height %d, parents' maximum is %d", c, b.Delta.GetPriority(), maxp))
		}
		return b.Delta.GetPriority()
	}
	for _, h := range heads {
		walk(h)
	}
	for _, h := range heads {
		if parentOf[h] {
			ps = append(ps, fmt.Sprintf("head %s is named as parent by another merged commit", h))
		}
	}
	// the latest commits of every field are exactly its merged commits that no other commit names as parent
	names := make([]string, 0, len(fieldSeen))
	for n := range fieldSeen {
		names = append(names, n)
	}
	sort.Strings(names)
	for _, n := range names {
		var want []string
		for c := range fieldSeen[n] {
			if !fieldParent[c] {
				want = append(want, c.String())
			}
		}
		sort.Strings(want)
		out := r.db.ExecRequest(ctx, fmt.Sprintf(`query { latestCommits(docID: %q, fieldName: %q) { cid } }`, docID, n))
		if len(out.GQL.Errors) > 0 {
			ps = append(ps, fmt.Sprintf("latestCommits of field %s: %v", n, out.GQL.Errors[0]))
			continue
		}
		var got []string
		if m, ok := out.GQL.Data.(map[string]any); ok {
			rows, _ := m["latestCommits"].([]map[string]any)
			for _, row := range rows {
				got = append(got, fmt.Sprint(row["cid"]))
			}
		}
		sort.Strings(got)
		if strings.Join(got, ",") != strings.Join(want, ",") {
			// diagnosis of the listed known finding: nothing is missing, and every extra head is a field commit
			// that two different document-level commits link (it was merged once more through the second one)
			wantSet := map[string]bool{}
			for _, w := range want {
				wantSet[w] = true
			}
			gotSet := map[string]bool{}
			for _, g := range got {
				gotSet[g] = true
			}
			twice := true
			for _, w := range want {
				if !gotSet[w] {
					twice = false
				}
			}
			for _, g := range got {
				if wantSet[g] {
					continue
				}
				gc, err := cid.Decode(g)
				if err != nil || len(linkedFrom[gc]) < 2 {
					twice = false
				}
			}
			tag := ""
			if twice {
				tag = "identical-field-commit: "
			}
			ps = append(ps, fmt.Sprintf("%slatest commits of field %s are %v, the merged commits of that field without a child are %v", tag, n, got, want))
		}
	}
	return ps
}

// TestGovcBoundedMerge: VERIF_BOUND_K replicas (default 2), all histories of length <= VERIF_BOUND_L
// (default 2) over the operation alphabet; results in VERIF_BOUND_OUT.
func TestGovcBoundedMerge(t *testing.T) {
	k, L := 2, 2
	fmt.Sscanf(os.Getenv("VERIF_BOUND_K"), "%d", &k)
	fmt.Sscanf(os.Getenv("VERIF_BOUND_L"), "%d", &L)
	ctx := context.Background()
	alpha := bAlphabet(k)
	var bad []bResult
	cases := 0
	distinct := map[string]bool{}
	var rec func(prefix []bOp)
	rec = func(prefix []bOp) {
		if len(prefix) > 0 {
			res := runHistory(t, ctx, k, prefix)
			cases++
			distinct[res.History] = true
			if len(res.Problems) > 0 {
				bad = append(bad, res)
			}
		}
		if len(prefix) == L {
			return
		}
		for _, o := range alpha {
			rec(append(append([]bOp{}, prefix...), o))
		}
	}
	rec(nil)
	// directed families (cheap, deeper than the exhaustive bound): fork-join "r0.a; r1.b; sync(r1>r0);
	// r0.c" (a merge commit with two parents reaches a replica that lacks one of them) and
	// "r0.a; r0.b; r1.c; sync(r1>r0)" (the receiver is two commits ahead of the fork point)
	if os.Getenv("VERIF_BOUND_FAMILIES") != "0" && k == 2 {
		var local []bOp
		for _, o := range alpha {
			if o.kind != "sync" && o.r == 0 {
				local = append(local, o)
			}
		}
		at := func(o bOp, r int) bOp { o.r = r; if o.kind == "inc" { o.val = mhIncOf(r) }; return o }
		for _, a := range local {
			for _, b := range local {
				for _, c := range local {
					for _, h := range [][]bOp{
						{at(a, 0), at(b, 1), {kind: "sync", r: 1, to: 0}, at(c, 0)},
						{at(a, 0), at(b, 0), at(c, 1), {kind: "sync", r: 1, to: 0}},
					} {
						res := runHistory(t, ctx, k, h)
						cases++
						distinct[res.History] = true
						if len(res.Problems) > 0 {
							bad = append(bad, res)
						}
					}
				}
			}
		}
	}
	// late joiner on three replicas: "r0.name=x; sync(r0>r1); r0.a; r1.b; sync(r1>r0); r0.c" - the third replica
	// has seen nothing and receives, in one go, a history whose newest commit has two parents that share an
	// ancestor it has not merged either
	if os.Getenv("VERIF_BOUND_FAMILIES") != "0" && k == 2 {
		var local []bOp
		for _, o := range bAlphabet(3) {
			if o.kind != "sync" && o.r == 0 {
				local = append(local, o)
			}
		}
		at := func(o bOp, r int) bOp { o.r = r; if o.kind == "inc" { o.val = mhIncOf(r) }; return o }
		for _, a := range local {
			for _, b := range local {
				for _, c := range local {
					h := []bOp{{kind: "name", r: 0, val: "x"}, {kind: "sync", r: 0, to: 1}, at(a, 0), at(b, 1), {kind: "sync", r: 1, to: 0}, at(c, 0)}
					res := runHistory(t, ctx, 3, h)
					cases++
					distinct[res.History] = true
					if len(res.Problems) > 0 {
						bad = append(bad, res)
					}
				}
			}
		}
	}
	// optional: VERIF_BOUND_RANDOM histories of length VERIF_BOUND_RLEN on VERIF_BOUND_RK replicas (seeded)
	nr, rl, rk, seed := 0, 8, 3, int64(1)
	fmt.Sscanf(os.Getenv("VERIF_BOUND_RANDOM"), "%d", &nr)
	fmt.Sscanf(os.Getenv("VERIF_BOUND_RLEN"), "%d", &rl)
	fmt.Sscanf(os.Getenv("VERIF_BOUND_RK"), "%d", &rk)
	fmt.Sscanf(os.Getenv("VERIF_SEED"), "%d", &seed)
	rng := rand.New(rand.NewSource(seed))
	ralpha := bAlphabet(rk)
	for i := 0; i < nr; i++ {
		var h []bOp
		for j := 0; j < rl; j++ {
			h = append(h, ralpha[rng.Intn(len(ralpha))])
		}
		res := runHistory(t, ctx, rk, h)
		cases++
		distinct[res.History] = true
		if len(res.Problems) > 0 {
			bad = append(bad, res)
		}
	}
	out := map[string]any{"replicas": k, "max_history": L, "alphabet": len(alpha), "cases": cases, "distinct": len(distinct), "violating": bad}
	data, _ := json.MarshalIndent(out, "", " ")
	if p := os.Getenv("VERIF_BOUND_OUT"); p != "" {
		os.WriteFile(p, data, 0o644)
	}
	t.Logf("bounded merge: k=%d L=%d cases=%d violating=%d", k, L, cases, len(bad))
	if len(bad) > 0 {
		t.Fail()
	}
}

// parseHistory: "r0.name=x; sync(r0>r1); r1.points+=2; r1.delete"
func parseHistory(s string) []bOp {
	var ops []bOp
	for _, p := range strings.Split(s, ";") {
		p = strings.TrimSpace(p)
		if p == "" {
			continue
		}
		var a, b int
		var v string
		switch {
		case strings.HasPrefix(p, "sync("):
			fmt.Sscanf(p, "sync(r%d>r%d)", &a, &b)
			ops = append(ops, bOp{kind: "sync", r: a, to: b})
		case strings.Contains(p, ".name="):
			fmt.Sscanf(p, "r%d.name=%s", &a, &v)
			if v == "<nil>" {
				ops = append(ops, bOp{kind: "name", r: a, val: nil})
			} else {
				ops = append(ops, bOp{kind: "name", r: a, val: v})
			}
		case strings.Contains(p, ".points+="):
			var n int64
			fmt.Sscanf(p, "r%d.points+=%d", &a, &n)
			ops = append(ops, bOp{kind: "inc", r: a, val: n})
		case strings.HasSuffix(p, ".delete"):
			fmt.Sscanf(p, "r%d.delete", &a)
			ops = append(ops, bOp{kind: "del", r: a})
		}
	}
	return ops
}

// TestGovcHistory runs the histories given in VERIF_HISTORIES (separated by '|') on VERIF_BOUND_K replicas.
func TestGovcHistory(t *testing.T) {
	k := 3
	fmt.Sscanf(os.Getenv("VERIF_BOUND_K"), "%d", &k)
	ctx := context.Background()
	var all []bResult
	for _, h := range strings.Split(os.Getenv("VERIF_HISTORIES"), "|") {
		if strings.TrimSpace(h) == "" {
			continue
		}
		res := runHistory(t, ctx, k, parseHistory(h))
		all = append(all, res)
		if len(res.Problems) > 0 {
			t.Errorf("%s: %v", res.History, res.Problems)
		}
	}
	data, _ := json.MarshalIndent(all, "", " ")
	if p := os.Getenv("VERIF_BOUND_OUT"); p != "" {
		os.WriteFile(p, data, 0o644)
	}
}
