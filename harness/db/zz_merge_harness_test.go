// Multi-replica merge harness (injected into package db with `go test -overlay`; never in /repo).
//
// BOUNDED stand-in for the DAG walk of properties C01/C02/C04 (executeMerge -> loadComposites /
// mergeComposites), which is outside the reach of the contract engine (recursion over pointer-holding
// maps and container/list).  Replicas are real DBs over in-memory stores; a delivery copies the
// ancestor closure of a commit into the receiver's blockstore (what net.syncDAG does) and calls the
// real executeMerge synchronously.

package db

import (
	"context"
	"encoding/json"
	"fmt"
	"os"
	"sort"
	"strings"
	"testing"

	"github.com/ipfs/go-cid"
	"github.com/sourcenetwork/corekv"

	"github.com/sourcenetwork/defradb/client"
	"github.com/sourcenetwork/defradb/event"
	"github.com/sourcenetwork/defradb/internal/core"
	coreblock "github.com/sourcenetwork/defradb/internal/core/block"
	"github.com/sourcenetwork/defradb/internal/datastore"
	"github.com/sourcenetwork/defradb/internal/keys"
)

const mhSchema = `type Users { name: String age: Int points: Int @crdt(type: pcounter) }`

type replica struct {
	name  string
	db    *DB
	ctl   *faultCtl
	store corekv.TxnStore
	col   client.Collection
}

func newReplica(t *testing.T, ctx context.Context, name, schema string) *replica {
	db, ctl, store := c05NewDB(t, ctx)
	if _, err := db.AddSchema(ctx, schema); err != nil {
		t.Fatal(err)
	}
	col, err := db.GetCollectionByName(ctx, "Users")
	if err != nil {
		t.Fatal(err)
	}
	return &replica{name: name, db: db, ctl: ctl, store: store, col: col}
}

// docHeads: the composite heads of a document as stored in the headstore.
func (r *replica) docHeads(ctx context.Context, docID string) ([]cid.Cid, error) {
	txn, err := r.db.NewTxn(ctx, true)
	if err != nil {
		return nil, err
	}
	defer txn.Discard(ctx)
	hs := coreblock.NewHeadSet(datastore.MustGetFromClientTxn(txn).Headstore(),
		keys.HeadstoreDocKey{DocID: docID, FieldID: core.COMPOSITE_NAMESPACE})
	cids, _, err := hs.List(ctx)
	return cids, err
}

func (r *replica) create(ctx context.Context, js string) (string, error) {
	doc, err := client.NewDocFromJSON([]byte(js), r.col.Definition())
	if err != nil {
		return "", err
	}
	if err := r.col.Create(ctx, doc); err != nil {
		return "", err
	}
	return doc.ID().String(), nil
}

func (r *replica) update(ctx context.Context, docID string, field string, val any) error {
	id, err := client.NewDocIDFromString(docID)
	if err != nil {
		return err
	}
	doc, err := r.col.Get(ctx, id, false)
	if err != nil {
		return err
	}
	if err := doc.Set(field, val); err != nil {
		return err
	}
	return r.col.Update(ctx, doc)
}

func (r *replica) delete(ctx context.Context, docID string) error {
	id, err := client.NewDocIDFromString(docID)
	if err != nil {
		return err
	}
	_, err = r.col.Delete(ctx, id)
	return err
}

// copyClosure copies the block c and everything it links to (parents, field blocks, signature) from
// one blockstore to the other, as net.syncDAG would fetch them.
func copyClosure(ctx context.Context, from, to *replica, c cid.Cid, seen map[cid.Cid]bool) error {
	if seen[c] {
		return nil
	}
	seen[c] = true
	fb := datastore.BlockstoreFrom(from.store)
	tb := datastore.BlockstoreFrom(to.store)
	blk, err := fb.Get(ctx, c)
	if err != nil {
		return fmt.Errorf("source lacks block %s: %w", c, err)
	}
	has, err := tb.Has(ctx, c)
	if err != nil {
		return err
	}
	if !has {
		if err := tb.Put(ctx, blk); err != nil {
			return err
		}
	}
	b, err := coreblock.GetFromBytes(blk.RawData())
	if err != nil {
		return nil // signature blocks etc. are leaves
	}
	for _, l := range b.AllLinks() {
		if err := copyClosure(ctx, from, to, l.Cid, seen); err != nil {
			return err
		}
	}
	if b.Signature != nil {
		if err := copyClosure(ctx, from, to, b.Signature.Cid, seen); err != nil {
			return err
		}
	}
	return nil
}

// deliver: what a pushed log does on the receiver once the DAG is synced.
func deliver(ctx context.Context, from, to *replica, docID string, c cid.Cid) error {
	if err := copyClosure(ctx, from, to, c, map[cid.Cid]bool{}); err != nil {
		return err
	}
	return to.merge(ctx, docID, c)
}

func (r *replica) merge(ctx context.Context, docID string, c cid.Cid) error {
	col := r.col.(*collection)
	return r.db.executeMerge(ctx, col, event.Merge{DocID: docID, Cid: c, CollectionID: col.Version().CollectionID})
}

// view: what a user can observe of a document: fields (showDeleted), deleted status, heads.
func (r *replica) view(ctx context.Context, docID string) string {
	id, err := client.NewDocIDFromString(docID)
	if err != nil {
		return "bad id"
	}
	var sb strings.Builder
	doc, err := r.col.Get(ctx, id, true)
	if err != nil {
		fmt.Fprintf(&sb, "get: %v;", err)
	} else {
		m, err := doc.ToMap()
		if err != nil {
			fmt.Fprintf(&sb, "tomap: %v;", err)
		}
		ks := make([]string, 0, len(m))
		for k := range m {
			ks = append(ks, k)
		}
		sort.Strings(ks)
		for _, k := range ks {
			fmt.Fprintf(&sb, "%s=%v;", k, m[k])
		}
	}
	if _, err := r.col.Get(ctx, id, false); err != nil {
		sb.WriteString("live=false;")
	} else {
		sb.WriteString("live=true;")
	}
	hs, err := r.docHeads(ctx, docID)
	if err != nil {
		fmt.Fprintf(&sb, "heads: %v", err)
	}
	var hss []string
	for _, h := range hs {
		hss = append(hss, h.String())
	}
	sort.Strings(hss)
	fmt.Fprintf(&sb, "heads=%s", strings.Join(hss, ","))
	return sb.String()
}

// ---------------------------------------------------------------- C05: a merge under storage faults

// mergeBranchSetup builds: r1 and r2 create the same document; r1 updates it (u1), r2 updates it (b).
// The operation under faults is: r1 receives b (its parent is known on r1 but is no longer a head).
func mergeBranchSetup(t *testing.T, ctx context.Context) (r1, r2 *replica, docID string, b cid.Cid) {
	r1 = newReplica(t, ctx, "r1", `type Users { name: String age: Int }`)
	r2 = newReplica(t, ctx, "r2", `type Users { name: String age: Int }`)
	var err error
	docID, err = r1.create(ctx, `{"name":"a","age":1}`)
	if err != nil {
		t.Fatal(err)
	}
	id2, err := r2.create(ctx, `{"name":"a","age":1}`)
	if err != nil || id2 != docID {
		t.Fatalf("replicas disagree on the genesis document: %v %s %s", err, docID, id2)
	}
	if err := r1.update(ctx, docID, "name", "c"); err != nil {
		t.Fatal(err)
	}
	if err := r2.update(ctx, docID, "name", "b"); err != nil {
		t.Fatal(err)
	}
	hs, err := r2.docHeads(ctx, docID)
	if err != nil || len(hs) != 1 {
		t.Fatalf("r2 heads: %v %v", hs, err)
	}
	b = hs[0]
	if err := copyClosure(ctx, r2, r1, b, map[cid.Cid]bool{}); err != nil {
		t.Fatal(err)
	}
	return
}

func TestGovcC05MergeFaults(t *testing.T) {
	fn := os.Getenv("VERIF_C05_FUNC")
	if fn != "" {
		hit := false
		for _, f := range []string{"coreblock.updateHeads", "coreblock.ProcessBlock", "(*db.DB).executeMerge", "(*coreblock.heads).Write", "(*coreblock.heads).Replace", "db.syncIndexedDoc"} {
			hit = hit || f == fn
		}
		if !hit {
			t.Skip("no merge scenario drives " + fn)
		}
	}
	ctx := context.Background()
	r1, _, docID, b := mergeBranchSetup(t, ctx)
	before := dumpStore(t, ctx, r1.store)
	r1.ctl.armed = true
	if err := r1.merge(ctx, docID, b); err != nil {
		t.Fatalf("fault-free merge failed: %v", err)
	}
	r1.ctl.armed = false
	n := r1.ctl.count
	after := dumpStore(t, ctx, r1.store)
	var viols []c05Violation
	fired := 0
	for k := 1; k <= n; k++ {
		r1, _, docID, b := mergeBranchSetup(t, ctx)
		if dumpStore(t, ctx, r1.store) != before {
			t.Fatal("setup not deterministic")
		}
		r1.ctl.failAt = k
		r1.ctl.armed = true
		err := r1.merge(ctx, docID, b)
		r1.ctl.armed = false
		if r1.ctl.fired {
			fired++
		}
		got := dumpStore(t, ctx, r1.store)
		switch {
		case err != nil && got != before:
			viols = append(viols, c05Violation{"MergeConcurrentBranch", k, r1.ctl.what, "error-but-state-changed", err.Error()})
		case err == nil && r1.ctl.fired && got != after:
			kind := "success-with-partial-effect"
			if got == before {
				kind = "success-with-no-effect"
			}
			viols = append(viols, c05Violation{"MergeConcurrentBranch", k, r1.ctl.what, kind,
				fmt.Sprintf("storage op #%d (%s) failed, executeMerge returned nil; view=%s", k, r1.ctl.what, r1.view(ctx, docID))})
		}
	}
	out := map[string]any{"scenarios": []string{"MergeConcurrentBranch"}, "cases": n, "faults_fired": fired, "violations": viols}
	data, _ := json.MarshalIndent(out, "", " ")
	if p := os.Getenv("VERIF_C05_OUT"); p != "" {
		os.WriteFile(p+".merge", data, 0o644)
	}
	t.Log(string(data))
	if len(viols) > 0 {
		t.Fatalf("C05 violated in merge: %d fault points", len(viols))
	}
}
