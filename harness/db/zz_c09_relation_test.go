// Bounded stand-in for properties C09 / C07 over relations (injected with go test -overlay; never in /repo):
// the same link / unlink / delete history is applied to a database with indexes on the related fields and
// the foreign key and to one without; queries that reach through the one-to-many relation, from either
// side, must return the same documents (the same sequence of sort keys when ordered), and the pairs
// (user, device) seen from the User side must be the pairs seen from the Device side.

package db

import (
	"context"
	"encoding/json"
	"fmt"
	"math/rand"
	"os"
	"sort"
	"strings"
	"testing"

	"github.com/sourcenetwork/defradb/client"
)

const c09Plain = `
type User { name: String age: Int devices: [Device] }
type Device { model: String year: Int owner: User }`

const c09Indexed = `
type User { name: String @index age: Int @index devices: [Device] }
type Device { model: String @index year: Int @index owner: User @index }`

type c09Op struct {
	Kind  string // user | device | relink | deluser | deldevice
	I     int    // which user / device
	Owner int    // owner (user index) for device / relink; -1 = none
}

func (o c09Op) String() string {
	switch o.Kind {
	case "user":
		return fmt.Sprintf("user(u%d)", o.I)
	case "device":
		return fmt.Sprintf("device(d%d owner=u%d)", o.I, o.Owner)
	case "relink":
		return fmt.Sprintf("relink(d%d owner=u%d)", o.I, o.Owner)
	case "deluser":
		return fmt.Sprintf("deluser(u%d)", o.I)
	default:
		return fmt.Sprintf("deldevice(d%d)", o.I)
	}
}

var c09UserNames = []string{"a", "b", "c"}
var c09UserAges = []int64{20, 40, 60}
var c09Models = []string{"m1", "m2", "m3", "m4"}
var c09Years = []int64{2020, 2020, 2020, 2021}

type c09Side struct {
	db      *DB
	users   client.Collection
	devices client.Collection
	uid     map[int]string
	did     map[int]string
}

func c09New(t *testing.T, ctx context.Context, schema string) *c09Side {
	db, _, _ := c05NewDB(t, ctx)
	if _, err := db.AddSchema(ctx, schema); err != nil {
		t.Fatal(err)
	}
	u, err := db.GetCollectionByName(ctx, "User")
	if err != nil {
		t.Fatal(err)
	}
	d, err := db.GetCollectionByName(ctx, "Device")
	if err != nil {
		t.Fatal(err)
	}
	return &c09Side{db: db, users: u, devices: d, uid: map[int]string{}, did: map[int]string{}}
}

func (s *c09Side) apply(ctx context.Context, o c09Op) error {
	switch o.Kind {
	case "user":
		doc, err := client.NewDocFromMap(map[string]any{"name": c09UserNames[o.I], "age": c09UserAges[o.I]}, s.users.Definition())
		if err != nil {
			return err
		}
		if err := s.users.Create(ctx, doc); err != nil {
			return err
		}
		s.uid[o.I] = doc.ID().String()
	case "device":
		m := map[string]any{"model": c09Models[o.I], "year": c09Years[o.I]}
		if o.Owner >= 0 {
			m["owner_id"] = s.uid[o.Owner]
		}
		doc, err := client.NewDocFromMap(m, s.devices.Definition())
		if err != nil {
			return err
		}
		if err := s.devices.Create(ctx, doc); err != nil {
			return err
		}
		s.did[o.I] = doc.ID().String()
	case "relink":
		id, err := client.NewDocIDFromString(s.did[o.I])
		if err != nil {
			return err
		}
		doc, err := s.devices.Get(ctx, id, false)
		if err != nil {
			return err
		}
		var v any
		if o.Owner >= 0 {
			v = s.uid[o.Owner]
		}
		if err := doc.Set("owner_id", v); err != nil {
			return err
		}
		return s.devices.Update(ctx, doc)
	case "deluser":
		id, err := client.NewDocIDFromString(s.uid[o.I])
		if err != nil {
			return err
		}
		_, err = s.users.Delete(ctx, id)
		return err
	case "deldevice":
		id, err := client.NewDocIDFromString(s.did[o.I])
		if err != nil {
			return err
		}
		_, err = s.devices.Delete(ctx, id)
		return err
	}
	return nil
}

type c09Query struct {
	Q       string
	Root    string
	Ordered bool
}

var c09Queries = []c09Query{
	{`query { User { name devices { model } } }`, "User", false},
	{`query { Device { model owner { name } } }`, "Device", false},
	{`query { User(filter: {devices: {year: {_eq: 2020}}}) { name } }`, "User", false},
	{`query { User(filter: {age: {_gt: 30}, devices: {year: {_eq: 2020}}}) { name } }`, "User", false},
	{`query { User(filter: {devices: {model: {_eq: "m1"}}}) { name } }`, "User", false},
	{`query { Device(filter: {owner: {name: {_eq: "a"}}}) { model } }`, "Device", false},
	{`query { Device(filter: {owner: {age: {_gt: 30}}}) { model } }`, "Device", false},
	{`query { Device(filter: {year: {_eq: 2020}, owner: {name: {_ne: "a"}}}) { model } }`, "Device", false},
	{`query { Device(order: {owner: {name: ASC}}) { owner { name } } }`, "Device", true},
	{`query { Device(order: {owner: {name: DESC}}) { owner { name } } }`, "Device", true},
	{`query { User(order: {name: DESC}) { name } }`, "User", true},
	{`query { Device(order: {year: ASC}) { year } }`, "Device", true},
}

func c09Rows(ctx context.Context, db *DB, q c09Query) (out []string, err error) {
	defer func() {
		if r := recover(); r != nil {
			out, err = nil, fmt.Errorf("PANIC: %v", r)
		}
	}()
	res := db.ExecRequest(ctx, q.Q)
	if len(res.GQL.Errors) > 0 {
		return nil, res.GQL.Errors[0]
	}
	m, _ := res.GQL.Data.(map[string]any)
	rows, _ := m[q.Root].([]map[string]any)
	for _, r := range rows {
		// child lists are compared as sets
		for k, v := range r {
			if kids, ok := v.([]map[string]any); ok {
				var ks []string
				for _, kid := range kids {
					b, _ := json.Marshal(kid)
					ks = append(ks, string(b))
				}
				sort.Strings(ks)
				r[k] = ks
			}
		}
		b, _ := json.Marshal(r)
		out = append(out, string(b))
	}
	if !q.Ordered {
		sort.Strings(out)
	}
	return out, nil
}

// c09Pairs: the relation as seen from each side of the indexed database
func c09Pairs(ctx context.Context, db *DB) (fromUsers, fromDevices []string, err error) {
	res := db.ExecRequest(ctx, `query { User { name devices { model } } }`)
	if len(res.GQL.Errors) > 0 {
		return nil, nil, res.GQL.Errors[0]
	}
	m, _ := res.GQL.Data.(map[string]any)
	rows, _ := m["User"].([]map[string]any)
	for _, r := range rows {
		kids, _ := r["devices"].([]map[string]any)
		for _, k := range kids {
			fromUsers = append(fromUsers, fmt.Sprintf("%v-%v", r["name"], k["model"]))
		}
	}
	res = db.ExecRequest(ctx, `query { Device { model owner { name } } }`)
	if len(res.GQL.Errors) > 0 {
		return nil, nil, res.GQL.Errors[0]
	}
	m, _ = res.GQL.Data.(map[string]any)
	rows, _ = m["Device"].([]map[string]any)
	for _, r := range rows {
		if o, ok := r["owner"].(map[string]any); ok && o != nil {
			fromDevices = append(fromDevices, fmt.Sprintf("%v-%v", o["name"], r["model"]))
		}
	}
	sort.Strings(fromUsers)
	sort.Strings(fromDevices)
	return
}

type c09Problem struct {
	History string `json:"history"`
	Step    int    `json:"step"`
	Query   string `json:"query"`
	What    string `json:"what"`
}

func c09Run(t *testing.T, ctx context.Context, hist []c09Op) (problems []c09Problem) {
	plain, idx := c09New(t, ctx, c09Plain), c09New(t, ctx, c09Indexed)
	defer plain.db.Close()
	defer idx.db.Close()
	var hs []string
	for _, o := range hist {
		hs = append(hs, o.String())
	}
	h := strings.Join(hs, "; ")
	users, devices := map[int]bool{}, map[int]bool{}
	userEver, deviceEver := map[int]bool{}, map[int]bool{}
	for step, o := range hist {
		// applicability (the same on both sides)
		switch o.Kind {
		case "user":
			if userEver[o.I] {
				continue
			}
		case "device":
			if deviceEver[o.I] || (o.Owner >= 0 && !users[o.Owner]) {
				continue
			}
		case "relink":
			if !devices[o.I] || (o.Owner >= 0 && !users[o.Owner]) {
				continue
			}
		case "deluser":
			if !users[o.I] {
				continue
			}
		case "deldevice":
			if !devices[o.I] {
				continue
			}
		}
		e1, e2 := plain.apply(ctx, o), idx.apply(ctx, o)
		if (e1 == nil) != (e2 == nil) {
			problems = append(problems, c09Problem{h, step, "", fmt.Sprintf("%s: without indexes err=%v, with indexes err=%v", o, e1, e2)})
			return
		}
		if e1 != nil {
			continue
		}
		switch o.Kind {
		case "user":
			users[o.I], userEver[o.I] = true, true
		case "device":
			devices[o.I], deviceEver[o.I] = true, true
		case "deluser":
			users[o.I] = false
		case "deldevice":
			devices[o.I] = false
		}
		for _, q := range c09Queries {
			a, errA := c09Rows(ctx, plain.db, q)
			b, errB := c09Rows(ctx, idx.db, q)
			if (errA == nil) != (errB == nil) || strings.Join(a, "|") != strings.Join(b, "|") {
				problems = append(problems, c09Problem{h, step, q.Q, fmt.Sprintf("without indexes %v (err %v), with indexes %v (err %v)", a, errA, b, errB)})
			}
		}
		for _, side := range []*c09Side{plain, idx} {
			fu, fd, err := c09Pairs(ctx, side.db)
			if err != nil || strings.Join(fu, "|") != strings.Join(fd, "|") {
				name := "without indexes"
				if side == idx {
					name = "with indexes"
				}
				problems = append(problems, c09Problem{h, step, "both sides", fmt.Sprintf("%s: pairs from the User side %v, from the Device side %v (err %v)", name, fu, fd, err)})
			}
		}
	}
	return
}

func c09Alphabet() []c09Op {
	var ops []c09Op
	for u := 0; u < 3; u++ {
		ops = append(ops, c09Op{Kind: "user", I: u}, c09Op{Kind: "deluser", I: u})
	}
	for d := 0; d < 4; d++ {
		for o := -1; o < 3; o++ {
			ops = append(ops, c09Op{Kind: "device", I: d, Owner: o}, c09Op{Kind: "relink", I: d, Owner: o})
		}
		ops = append(ops, c09Op{Kind: "deldevice", I: d})
	}
	return ops
}

// TestGovcC09Relations: a fixed population (3 users, 4 devices in every ownership pattern of a directed
// family) followed by one change, plus VERIF_BOUND_N seeded random histories of length VERIF_BOUND_L.
func TestGovcC09Relations(t *testing.T) {
	n, L, seed := 60, 9, int64(1)
	fmt.Sscanf(os.Getenv("VERIF_BOUND_N"), "%d", &n)
	fmt.Sscanf(os.Getenv("VERIF_BOUND_L"), "%d", &L)
	fmt.Sscanf(os.Getenv("VERIF_SEED"), "%d", &seed)
	ctx := context.Background()
	alpha := c09Alphabet()
	var problems []c09Problem
	cases := 0
	run := func(h []c09Op) {
		cases++
		problems = append(problems, c09Run(t, ctx, h)...)
	}
	// directed: users a,b,c; devices d0..d2 with owners (o0,o1,o2) in {-1,0,1}; then one change
	changes := []c09Op{{Kind: "deluser", I: 0}, {Kind: "deluser", I: 1}, {Kind: "deldevice", I: 0}, {Kind: "relink", I: 0, Owner: 1}, {Kind: "relink", I: 1, Owner: -1}, {Kind: "device", I: 3, Owner: 2}}
	for o0 := -1; o0 < 2; o0++ {
		for o1 := -1; o1 < 2; o1++ {
			for o2 := -1; o2 < 2; o2++ {
				base := []c09Op{{Kind: "user", I: 0}, {Kind: "user", I: 1}, {Kind: "user", I: 2},
					{Kind: "device", I: 0, Owner: o0}, {Kind: "device", I: 1, Owner: o1}, {Kind: "device", I: 2, Owner: o2}}
				for _, c := range changes {
					run(append(append([]c09Op{}, base...), c))
				}
			}
		}
	}
	rng := rand.New(rand.NewSource(seed))
	for i := 0; i < n; i++ {
		h := []c09Op{{Kind: "user", I: 0}, {Kind: "user", I: 1}}
		for j := 0; j < L; j++ {
			h = append(h, alpha[rng.Intn(len(alpha))])
		}
		run(h)
	}
	out := map[string]any{"cases": cases, "problems": problems, "queries": len(c09Queries) + 2}
	data, _ := json.MarshalIndent(out, "", " ")
	if p := os.Getenv("VERIF_BOUND_OUT"); p != "" {
		os.WriteFile(p, data, 0o644)
	}
	t.Logf("C09 relation differential: cases=%d problems=%d", cases, len(problems))
	if len(problems) > 0 {
		for i, p := range problems {
			if i < 10 {
				t.Logf("%s @%d: %s: %s", p.History, p.Step, p.Query, p.What)
			}
		}
		t.Fail()
	}
}
