// Replays for property C03 (injected with go test -overlay; never in /repo): a time-travel query on a collection
// with a secondary index, with a filter on the indexed field; and a time-travel query at and after a delete.
package db

import (
	"context"
	"fmt"
	"testing"
	"time"
)

func c03Rows(ctx context.Context, db *DB, q string) ([]map[string]any, error) {
	type out struct {
		rows []map[string]any
		err  error
	}
	ch := make(chan out, 1)
	go func() {
		res := db.ExecRequest(ctx, q)
		if len(res.GQL.Errors) > 0 {
			ch <- out{nil, res.GQL.Errors[0]}
			return
		}
		m, _ := res.GQL.Data.(map[string]any)
		rows, _ := m["Users"].([]map[string]any)
		ch <- out{rows, nil}
	}()
	select {
	case o := <-ch:
		return o.rows, o.err
	case <-time.After(20 * time.Second):
		return nil, fmt.Errorf("the request did not return within 20s")
	}
}

// the state at a commit does not depend on whether the collection has a secondary index
func TestGovcC03IndexedFilterAtCommit(t *testing.T) {
	ctx := context.Background()
	for _, schema := range []string{
		`type Users { name: String age: Int points: Int @crdt(type: pcounter) }`,
		`type Users { name: String @index age: Int points: Int @crdt(type: pcounter) }`,
	} {
		r := newReplica(t, ctx, "r", schema)
		docID, err := r.create(ctx, `{"name":"v0","age":1,"points":1}`)
		if err != nil {
			t.Fatal(err)
		}
		heads, _ := r.docHeads(ctx, docID)
		first := heads[0].String()
		if err := r.update(ctx, docID, "name", "v1"); err != nil {
			t.Fatal(err)
		}
		for _, c := range []struct {
			filter string
			want   int
		}{{`{name: {_eq: "v0"}}`, 1}, {`{name: {_eq: "v1"}}`, 0}, {`{name: {_ne: "zz"}}`, 1}} {
			rows, err := c03Rows(ctx, r.db, fmt.Sprintf(`query { Users(docID: %q, cid: %q, filter: %s) { name } }`, docID, first, c.filter))
			if err != nil {
				t.Errorf("C03: %s: filter %s at the first commit: %v", schema, c.filter, err)
			} else if len(rows) != c.want {
				t.Errorf("C03: %s: filter %s at the first commit (name was v0): %d rows, want %d", schema, c.filter, len(rows), c.want)
			}
		}
		r.db.Close()
	}
}

// a document can be queried at every commit of its history, also at and before the commit that deleted it
func TestGovcC03AtDeleteCommit(t *testing.T) {
	ctx := context.Background()
	r := newReplica(t, ctx, "r", `type Users { name: String age: Int points: Int @crdt(type: pcounter) }`)
	defer r.db.Close()
	docID, err := r.create(ctx, `{"name":"v0","age":1,"points":1}`)
	if err != nil {
		t.Fatal(err)
	}
	heads, _ := r.docHeads(ctx, docID)
	first := heads[0].String()
	if err := r.delete(ctx, docID); err != nil {
		t.Fatal(err)
	}
	heads, _ = r.docHeads(ctx, docID)
	del := heads[0].String()
	rows, err := c03Rows(ctx, r.db, fmt.Sprintf(`query { Users(docID: %q, cid: %q) { name } }`, docID, first))
	if err != nil || len(rows) != 1 || rows[0]["name"] != "v0" {
		t.Errorf("C03: query at the creating commit of a deleted document: %v %v", rows, err)
	}
	_, err = c03Rows(ctx, r.db, fmt.Sprintf(`query { Users(docID: %q, cid: %q, showDeleted: true) { name } }`, docID, del))
	if err != nil {
		t.Errorf("C03: query at the deleting commit: %v", err)
	}
	rows, err = c03Rows(ctx, r.db, fmt.Sprintf(`query { Users(docID: %q, cid: %q) { name } }`, docID, first))
	if err != nil || len(rows) != 1 {
		t.Errorf("C03: query at the creating commit after a query at the deleting commit: %v %v", rows, err)
	}
}
