// Bounded stand-in for the filter part of property C08 (injected with go test -overlay; never in /repo):
// the filter keeps exactly the matching documents.  No reference evaluator is needed for the compound
// operators: their documented meaning is boolean algebra over the results of their operands, so for every
// pair of atomic conditions f, g the result sets must satisfy
//   _not f = all \ f        _and[f,g] = f ∩ g        _or[f,g] = f ∪ g
//   _in[v,w] = _eq v ∪ _eq w    _nin[v,w] = all \ _in[v,w]    _ne v = all \ _eq v
//   _ge v = _gt v ∪ _eq v       _le v = _lt v ∪ _eq v         _gt v ∩ _le v = ∅
// The laws are checked on a collection without indexes and on one with an index on every field.

package db

import (
	"context"
	"encoding/json"
	"fmt"
	"os"
	"sort"
	"strings"
	"testing"
)

type c08Set map[string]bool

func c08Query(t *testing.T, ctx context.Context, db *DB, filter string) (c08Set, error) {
	q := `query { Users { k } }`
	if filter != "" {
		q = fmt.Sprintf(`query { Users(filter: %s) { k } }`, filter)
	}
	var res c08Set
	var err error
	func() {
		defer func() {
			if r := recover(); r != nil {
				err = fmt.Errorf("PANIC: %v", r)
			}
		}()
		out := db.ExecRequest(ctx, q)
		if len(out.GQL.Errors) > 0 {
			err = out.GQL.Errors[0]
			return
		}
		res = c08Set{}
		m, _ := out.GQL.Data.(map[string]any)
		rows, _ := m["Users"].([]map[string]any)
		for _, r := range rows {
			id := fmt.Sprintf("doc%v", r["k"])
			if res[id] {
				err = fmt.Errorf("document %s returned twice", id)
			}
			res[id] = true
		}
	}()
	return res, err
}

func (a c08Set) String() string {
	var ks []string
	for k := range a {
		ks = append(ks, k)
	}
	sort.Strings(ks)
	return "{" + strings.Join(ks, ",") + "}"
}

func c08Eq(a, b c08Set) bool {
	if len(a) != len(b) {
		return false
	}
	for k := range a {
		if !b[k] {
			return false
		}
	}
	return true
}

func c08Union(a, b c08Set) c08Set {
	r := c08Set{}
	for k := range a {
		r[k] = true
	}
	for k := range b {
		r[k] = true
	}
	return r
}

func c08Inter(a, b c08Set) c08Set {
	r := c08Set{}
	for k := range a {
		if b[k] {
			r[k] = true
		}
	}
	return r
}

func c08Minus(a, b c08Set) c08Set {
	r := c08Set{}
	for k := range a {
		if !b[k] {
			r[k] = true
		}
	}
	return r
}

type c08Law struct {
	Schema string `json:"schema"`
	Law    string `json:"law"`
	What   string `json:"what"`
}

func TestGovcC08FilterLaws(t *testing.T) {
	ctx := context.Background()
	docs := []string{
		`{"k":0,"name":"a","age":1,"score":1.5,"ok":true,"tags":["x","y"]}`,
		`{"k":1,"name":"a","age":2,"score":-1.5,"ok":false,"tags":["x"]}`,
		`{"k":2,"name":"b","age":1,"score":0.0,"tags":["y","z","x"]}`,
		`{"k":3,"name":"b","age":null,"score":2.5,"ok":true,"tags":["z"]}`,
		`{"k":4,"name":null,"age":2,"score":null,"ok":false,"tags":["x","z"]}`,
		`{"k":5,"name":"ab","age":3,"ok":null,"tags":["y"]}`,
		`{"k":6,"name":"","age":0,"score":1.5,"ok":true,"tags":["x","y"]}`,
		`{"k":7,"name":"Alice","age":5,"score":3.5,"ok":false,"tags":["q","r"]}`,
	}
	schemas := map[string]string{
		"no index": `type Users { k: Int name: String age: Int score: Float ok: Boolean tags: [String!] }`,
		"indexed":  `type Users { k: Int name: String @index age: Int @index score: Float @index ok: Boolean @index tags: [String!] }`,
		// a composite index whose second field is an array: one index entry per array element
		"composite with array": `type Users @index(includes: [{field: "name"}, {field: "tags"}]) { k: Int name: String age: Int score: Float ok: Boolean tags: [String!] }`,
	}
	type field struct {
		name string
		vals []string
		ord  bool
	}
	fields := []field{
		{"name", []string{`"a"`, `"b"`, `""`, `null`}, false},
		{"age", []string{`1`, `2`, `0`, `null`}, true},
		{"score", []string{`1.5`, `-1.5`, `0`, `null`}, true},
		{"ok", []string{`true`, `false`, `null`}, false},
	}
	var problems []c08Law
	cases := 0
	// the same condition on the collection without and with the indexes returns the same documents
	// (documents are identified by their field k)
	plain := map[string]c08Set{}
	for _, sname := range []string{"no index", "indexed", "composite with array"} {
		schema := schemas[sname]
		db, _, _ := c05NewDB(t, ctx)
		c05Users(t, ctx, db, schema, docs...)
		add := func(law, what string) {
			problems = append(problems, c08Law{sname, law, what})
		}
		all, err := c08Query(t, ctx, db, "")
		if err != nil || len(all) != len(docs) {
			t.Fatalf("%s: listing: %v %v", sname, all, err)
		}
		q := func(f string) c08Set {
			r, err := c08Query(t, ctx, db, f)
			if err != nil {
				add("no request fails or panics", fmt.Sprintf("%s: %v", f, err))
				return c08Set{}
			}
			if sname == "no index" {
				plain[f] = r
			} else if p, ok := plain[f]; ok && !c08Eq(p, r) {
				add("with the indexes = without the indexes", fmt.Sprintf("%s: without %v, with %v", f, p, r))
			}
			return r
		}
		// atomic conditions
		var atoms []string
		for _, f := range fields {
			for _, v := range f.vals {
				eq := q(fmt.Sprintf(`{%s: {_eq: %s}}`, f.name, v))
				ne := q(fmt.Sprintf(`{%s: {_ne: %s}}`, f.name, v))
				cases++
				if !c08Eq(ne, c08Minus(all, eq)) {
					add("_ne v = all \\ _eq v", fmt.Sprintf("%s %s: _eq %v, _ne %v, all %v", f.name, v, eq, ne, all))
				}
				atoms = append(atoms, fmt.Sprintf(`{%s: {_eq: %s}}`, f.name, v), fmt.Sprintf(`{%s: {_ne: %s}}`, f.name, v))
				if f.ord && v != "null" {
					gt := q(fmt.Sprintf(`{%s: {_gt: %s}}`, f.name, v))
					ge := q(fmt.Sprintf(`{%s: {_ge: %s}}`, f.name, v))
					lt := q(fmt.Sprintf(`{%s: {_lt: %s}}`, f.name, v))
					le := q(fmt.Sprintf(`{%s: {_le: %s}}`, f.name, v))
					cases += 3
					if !c08Eq(ge, c08Union(gt, eq)) {
						add("_ge v = _gt v ∪ _eq v", fmt.Sprintf("%s %s: _gt %v, _eq %v, _ge %v", f.name, v, gt, eq, ge))
					}
					if !c08Eq(le, c08Union(lt, eq)) {
						add("_le v = _lt v ∪ _eq v", fmt.Sprintf("%s %s: _lt %v, _eq %v, _le %v", f.name, v, lt, eq, le))
					}
					if len(c08Inter(gt, le)) != 0 {
						add("_gt v ∩ _le v = ∅", fmt.Sprintf("%s %s: _gt %v, _le %v", f.name, v, gt, le))
					}
					atoms = append(atoms, fmt.Sprintf(`{%s: {_gt: %s}}`, f.name, v), fmt.Sprintf(`{%s: {_le: %s}}`, f.name, v))
				}
				for _, w := range f.vals {
					in := q(fmt.Sprintf(`{%s: {_in: [%s, %s]}}`, f.name, v, w))
					nin := q(fmt.Sprintf(`{%s: {_nin: [%s, %s]}}`, f.name, v, w))
					eqw := q(fmt.Sprintf(`{%s: {_eq: %s}}`, f.name, w))
					cases += 2
					if !c08Eq(in, c08Union(eq, eqw)) {
						add("_in[v,w] = _eq v ∪ _eq w", fmt.Sprintf("%s [%s,%s]: _in %v, _eq v %v, _eq w %v", f.name, v, w, in, eq, eqw))
					}
					if !c08Eq(nin, c08Minus(all, in)) {
						add("_nin[v,w] = all \\ _in[v,w]", fmt.Sprintf("%s [%s,%s]: _in %v, _nin %v", f.name, v, w, in, nin))
					}
				}
			}
		}
		// string patterns: the negated operators are the complements, the case-insensitive ones contain the
		// case-sensitive ones
		for _, pat := range []string{`"a%"`, `"%b"`, `"%a%"`, `"a"`, `"a%b"`, `"A%e"`, `"%"`, `""`, `"%li%"`} {
			like := q(fmt.Sprintf(`{name: {_like: %s}}`, pat))
			nlike := q(fmt.Sprintf(`{name: {_nlike: %s}}`, pat))
			ilike := q(fmt.Sprintf(`{name: {_ilike: %s}}`, pat))
			nilike := q(fmt.Sprintf(`{name: {_nilike: %s}}`, pat))
			cases += 3
			if !c08Eq(nlike, c08Minus(all, like)) {
				add("_nlike p = all \\ _like p", fmt.Sprintf("%s: _like %v, _nlike %v, all %v", pat, like, nlike, all))
			}
			if !c08Eq(nilike, c08Minus(all, ilike)) {
				add("_nilike p = all \\ _ilike p", fmt.Sprintf("%s: _ilike %v, _nilike %v, all %v", pat, ilike, nilike, all))
			}
			if len(c08Minus(like, ilike)) != 0 {
				add("_like p is contained in _ilike p", fmt.Sprintf("%s: _like %v, _ilike %v", pat, like, ilike))
			}
			atoms = append(atoms, fmt.Sprintf(`{name: {_like: %s}}`, pat))
		}
		res := map[string]c08Set{}
		for _, a := range atoms {
			res[a] = q(a)
			not := q(fmt.Sprintf(`{_not: %s}`, a))
			cases++
			if !c08Eq(not, c08Minus(all, res[a])) {
				add("_not f = all \\ f", fmt.Sprintf("f = %s: f %v, _not f %v", a, res[a], not))
			}
		}
		for i, f := range atoms {
			for j, g := range atoms {
				if j < i {
					continue
				}
				and := q(fmt.Sprintf(`{_and: [%s, %s]}`, f, g))
				or := q(fmt.Sprintf(`{_or: [%s, %s]}`, f, g))
				cases += 2
				if !c08Eq(and, c08Inter(res[f], res[g])) {
					add("_and[f,g] = f ∩ g", fmt.Sprintf("f = %s, g = %s: f %v, g %v, _and %v", f, g, res[f], res[g], and))
				}
				if !c08Eq(or, c08Union(res[f], res[g])) {
					add("_or[f,g] = f ∪ g", fmt.Sprintf("f = %s, g = %s: f %v, g %v, _or %v", f, g, res[f], res[g], or))
				}
			}
		}
		db.Close()
	}
	out := map[string]any{"cases": cases, "problems": problems}
	data, _ := json.MarshalIndent(out, "", " ")
	if p := os.Getenv("VERIF_BOUND_OUT"); p != "" {
		os.WriteFile(p, data, 0o644)
	}
	t.Logf("C08 filter laws: cases=%d problems=%d", cases, len(problems))
	byLaw := map[string]int{}
	for _, p := range problems {
		byLaw[p.Schema+": "+p.Law]++
		if byLaw[p.Schema+": "+p.Law] <= 2 {
			t.Logf("%s: %s: %s", p.Schema, p.Law, p.What)
		}
	}
	for k, n := range byLaw {
		t.Logf("%4d  %s", n, k)
	}
	if len(problems) > 0 {
		t.Fail()
	}
}
