// Probe for property C07 (injected with go test -overlay; never in /repo): Collection.Update accepts a document
// that carries only the fields to change; the secondary index of a field that was not touched keeps its entry.
package db

import (
	"context"
	"fmt"
	"testing"

	"github.com/sourcenetwork/defradb/client"
)

func TestGovcC07PartialUpdateKeepsIndex(t *testing.T) {
	ctx := context.Background()
	var ref string
	for i, schema := range []string{
		`type Users { name: String age: Int }`,
		`type Users { name: String @index age: Int }`,
	} {
		db, _, _ := c05NewDB(t, ctx)
		col := c05Users(t, ctx, db, schema)
		doc, err := client.NewDocFromJSON([]byte(`{"name":"a","age":1}`), col.Definition())
		if err != nil {
			t.Fatal(err)
		}
		if err := col.Create(ctx, doc); err != nil {
			t.Fatal(err)
		}
		partial, err := client.NewDocWithID(doc.ID(), col.Definition())
		if err != nil {
			t.Fatal(err)
		}
		if err := partial.Set("age", int64(2)); err != nil {
			t.Fatal(err)
		}
		if err := col.Update(ctx, partial); err != nil {
			t.Fatalf("update with a partial document: %v", err)
		}
		res := db.ExecRequest(ctx, `query { Users(filter: {name: {_eq: "a"}}) { name age } }`)
		got := fmt.Sprint(res.GQL.Data, res.GQL.Errors)
		if i == 0 {
			ref = got
		} else if got != ref {
			t.Errorf("C07: after an update that carries only age: filter name == a returns %s without the index, %s with an index on name", ref, got)
		}
		db.Close()
	}
}
