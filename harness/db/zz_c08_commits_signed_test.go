// Probe for property C08 (no request makes the node panic; injected with go test -overlay; never in /repo): the
// commit history of a document whose commits are signed, requested without the signature field.
package db

import (
	"context"
	"testing"

	"github.com/sourcenetwork/immutable"

	"github.com/sourcenetwork/defradb/acp/identity"
	"github.com/sourcenetwork/defradb/client"
	coreblock "github.com/sourcenetwork/defradb/internal/core/block"
	"github.com/sourcenetwork/defradb/crypto"
)

func TestGovcC08CommitsOfSignedDocWithoutSignatureField(t *testing.T) {
	ctx := context.Background()
	db, _, _ := c05NewDB(t, ctx)
	defer db.Close()
	col := c05Users(t, ctx, db, `type Users { name: String age: Int }`)
	ident, err := identity.Generate(crypto.KeyTypeSecp256k1)
	if err != nil {
		t.Fatal(err)
	}
	sctx := coreblock.ContextWithEnabledSigning(identity.WithContext(ctx, immutable.Some[identity.Identity](ident)))
	doc, err := client.NewDocFromJSON([]byte(`{"name":"a","age":1}`), col.Definition())
	if err != nil {
		t.Fatal(err)
	}
	if err := col.Create(sctx, doc); err != nil {
		t.Fatal(err)
	}
	for _, q := range []string{`query { commits { cid signature { type } } }`, `query { commits { cid height } }`} {
		m, err := c08Exec(ctx, db, q)
		if err != nil {
			t.Errorf("C08: %s on a signed history: %v", q, err)
			continue
		}
		if rows, _ := m["commits"].([]map[string]any); len(rows) == 0 {
			t.Errorf("C08: %s on a signed history: no rows", q)
		}
	}
}
