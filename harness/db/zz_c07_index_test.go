// Bounded stand-in / replay for property C07 (injected with go test -overlay; never in /repo):
// the same history of creates, updates, deletes and filter-deletes is applied to a database whose
// collection has secondary indexes and to one without; after every step a fixed family of queries must
// return the same multiset of documents on both.  For the unique index: a write is rejected exactly
// when another live document holds the same non-null value.

package db

import (
	"context"
	"encoding/json"
	"fmt"
	"math/rand"
	"os"
	"sort"
	"strings"
	"testing"

	"github.com/sourcenetwork/defradb/client"
)

const c07Plain = `type Users { name: String age: Int email: String }`
const c07Indexed = `type Users { name: String @index age: Int @index(direction: DESC) email: String @index(unique: true) }`

// second variant: one composite unique index over (name, age) and a plain one on email
const c07IndexedComposite = `type Users @index(unique: true, includes: [{field: "name"}, {field: "age", direction: DESC}]) { name: String age: Int email: String @index }`

type c07Op struct {
	Kind string // create | update | delete | delfilter
	Doc  int    // which logical document (0..2)
	Name string
	Age  int64
	Mail any // string or nil
}

func (o c07Op) String() string {
	switch o.Kind {
	case "create":
		return fmt.Sprintf("create(d%d name=%s age=%d email=%v)", o.Doc, o.Name, o.Age, o.Mail)
	case "update":
		return fmt.Sprintf("update(d%d name=%s age=%d email=%v)", o.Doc, o.Name, o.Age, o.Mail)
	case "delete":
		return fmt.Sprintf("delete(d%d)", o.Doc)
	default:
		return fmt.Sprintf("delfilter(name=%s)", o.Name)
	}
}

var c07Queries = []string{
	`query { Users { _docID name age email } }`,
	`query { Users(filter: {name: {_eq: "a"}}) { _docID name age email } }`,
	`query { Users(filter: {name: {_eq: "b"}}) { _docID name age email } }`,
	`query { Users(filter: {name: {_ne: "a"}}) { _docID name age email } }`,
	`query { Users(filter: {age: {_gt: 1}}) { _docID name age email } }`,
	`query { Users(filter: {age: {_le: 1}}) { _docID name age email } }`,
	`query { Users(filter: {age: {_ge: 2}}) { _docID name age email } }`,
	`query { Users(filter: {age: {_lt: 2}}) { _docID name age email } }`,
	`query { Users(filter: {email: {_eq: "x@x"}}) { _docID name age email } }`,
	`query { Users(filter: {email: {_eq: null}}) { _docID name age email } }`,
	`query { Users(filter: {email: {_ne: null}}) { _docID name age email } }`,
	`query { Users(filter: {name: {_in: ["a", "b"]}}) { _docID name age email } }`,
	`query { Users(filter: {_or: [{name: {_eq: "a"}}, {age: {_eq: 2}}]}) { _docID name age email } }`,
	`query { Users(filter: {name: {_like: "a%"}}) { _docID name age email } }`,
}

var c07OrderedQueries = []string{
	`query { Users(order: {age: ASC}) { age } }`,
	`query { Users(order: {age: DESC}) { age } }`,
	`query { Users(order: {name: ASC}) { name } }`,
	`query { Users(order: {name: DESC}) { name } }`,
}

func c07Rows(ctx context.Context, db *DB, q string) (out []string, err error) {
	defer func() {
		if r := recover(); r != nil {
			out, err = nil, fmt.Errorf("PANIC: %v", r)
		}
	}()
	res := db.ExecRequest(ctx, q)
	if len(res.GQL.Errors) > 0 {
		return nil, res.GQL.Errors[0]
	}
	m, _ := res.GQL.Data.(map[string]any)
	rows, _ := m["Users"].([]map[string]any)
	for _, r := range rows {
		b, _ := json.Marshal(r)
		out = append(out, string(b))
	}
	return out, nil
}

type c07Problem struct {
	History string `json:"history"`
	Step    int    `json:"step"`
	What    string `json:"what"`
	// diagnosis used to attribute a problem to a listed known finding
	AfterFilterDelete bool `json:"after_filter_delete"`
}

type c07Side struct {
	db   *DB
	col  client.Collection
	ids  map[int]string
	live map[int]bool
}

func c07New(t *testing.T, ctx context.Context, schema string) *c07Side {
	db, _, _ := c05NewDB(t, ctx)
	if _, err := db.AddSchema(ctx, schema); err != nil {
		t.Fatal(err)
	}
	col, err := db.GetCollectionByName(ctx, "Users")
	if err != nil {
		t.Fatal(err)
	}
	return &c07Side{db: db, col: col, ids: map[int]string{}, live: map[int]bool{}}
}

func (s *c07Side) apply(ctx context.Context, o c07Op) error {
	switch o.Kind {
	case "create":
		m := map[string]any{"name": o.Name, "age": o.Age, "email": o.Mail, "_seed": nil}
		delete(m, "_seed")
		doc, err := client.NewDocFromMap(m, s.col.Definition())
		if err != nil {
			return err
		}
		if err := s.col.Create(ctx, doc); err != nil {
			return err
		}
		s.ids[o.Doc] = doc.ID().String()
		s.live[o.Doc] = true
	case "update":
		id, err := client.NewDocIDFromString(s.ids[o.Doc])
		if err != nil {
			return err
		}
		doc, err := s.col.Get(ctx, id, false)
		if err != nil {
			return err
		}
		if err := doc.Set("name", o.Name); err != nil {
			return err
		}
		if err := doc.Set("age", o.Age); err != nil {
			return err
		}
		if err := doc.Set("email", o.Mail); err != nil {
			return err
		}
		return s.col.Update(ctx, doc)
	case "delete":
		id, err := client.NewDocIDFromString(s.ids[o.Doc])
		if err != nil {
			return err
		}
		if _, err := s.col.Delete(ctx, id); err != nil {
			return err
		}
		s.live[o.Doc] = false
	case "delfilter":
		_, err := s.col.DeleteWithFilter(ctx, fmt.Sprintf(`{name: {_eq: %q}}`, o.Name))
		return err
	}
	return nil
}

// c07Run applies the history to both sides; ops that are not applicable in the current state (update of
// a document that does not exist, second create of the same logical document) are skipped on both.
func c07Run(t *testing.T, ctx context.Context, hist []c07Op) (problems []c07Problem) {
	return c07RunVariant(t, ctx, hist, false)
}

func c07RunVariant(t *testing.T, ctx context.Context, hist []c07Op, composite bool) (problems []c07Problem) {
	schema := c07Indexed
	if composite {
		schema = c07IndexedComposite
	}
	plain, idx := c07New(t, ctx, c07Plain), c07New(t, ctx, schema)
	defer plain.db.Close()
	defer idx.db.Close()
	var hs []string
	for _, o := range hist {
		hs = append(hs, o.String())
	}
	h := strings.Join(hs, "; ")
	sawFilterDelete := false
	type mstate struct {
		mail any
		live bool
		name string
		age  int64
	}
	model := map[int]*mstate{} // reference state for the unique admission rule
	for step, o := range hist {
		ms := model[o.Doc]
		switch o.Kind {
		case "create":
			if ms != nil {
				continue
			}
		case "update", "delete":
			if ms == nil || !ms.live {
				continue
			}
		}
		// expected verdict of the unique index
		wantReject := false
		if o.Kind == "create" || o.Kind == "update" {
			for d, other := range model {
				if d == o.Doc || !other.live {
					continue
				}
				if !composite && o.Mail != nil && other.mail == o.Mail {
					wantReject = true
				}
				if composite && other.name == o.Name && other.age == o.Age {
					wantReject = true
				}
			}
		}
		errPlain := plain.apply(ctx, o)
		errIdx := idx.apply(ctx, o)
		if errPlain != nil {
			problems = append(problems, c07Problem{h, step, fmt.Sprintf("reference database (no index) failed on %s: %v", o, errPlain), sawFilterDelete})
			return
		}
		switch {
		case wantReject && errIdx == nil:
			problems = append(problems, c07Problem{h, step, fmt.Sprintf("unique index admitted %s although a live document holds that unique value", o), sawFilterDelete})
			return
		case !wantReject && errIdx != nil:
			problems = append(problems, c07Problem{h, step, fmt.Sprintf("indexed database rejected %s: %v (no live document holds that unique value)", o, errIdx), sawFilterDelete})
			return
		}
		if wantReject {
			// undo on the reference side so that both keep the same contents
			switch o.Kind {
			case "create":
				id, _ := client.NewDocIDFromString(plain.ids[o.Doc])
				plain.col.Delete(ctx, id)
				// a deleted document id cannot be created again: both sides must not see this logical doc any more
				model[o.Doc] = &mstate{live: false}
				// the indexed side never created it; give it the same id bookkeeping
				idx.ids[o.Doc] = plain.ids[o.Doc]
			case "update":
				// the rejected update changed nothing: take it back on the reference side
				prev := model[o.Doc]
				id, _ := client.NewDocIDFromString(plain.ids[o.Doc])
				doc, err := plain.col.Get(ctx, id, false)
				if err == nil {
					doc.Set("email", prev.mail)
					doc.Set("name", prev.name)
					doc.Set("age", prev.age)
					plain.col.Update(ctx, doc)
				}
			}
			continue
		}
		switch o.Kind {
		case "create":
			model[o.Doc] = &mstate{mail: o.Mail, live: true, name: o.Name, age: o.Age}
		case "update":
			ms.mail, ms.name, ms.age = o.Mail, o.Name, o.Age
		case "delete":
			ms.live = false
		case "delfilter":
			sawFilterDelete = true
			for _, other := range model {
				if other.live && other.name == o.Name {
					other.live = false
				}
			}
		}
		for _, q := range c07Queries {
			a, errA := c07Rows(ctx, plain.db, q)
			b, errB := c07Rows(ctx, idx.db, q)
			sort.Strings(a)
			sort.Strings(b)
			if (errA == nil) != (errB == nil) || strings.Join(a, "|") != strings.Join(b, "|") {
				problems = append(problems, c07Problem{h, step, fmt.Sprintf("%s: without index %v (err %v), with indexes %v (err %v)", q, a, errA, b, errB), sawFilterDelete})
			}
		}
		for _, q := range c07OrderedQueries {
			a, errA := c07Rows(ctx, plain.db, q)
			b, errB := c07Rows(ctx, idx.db, q)
			if (errA == nil) != (errB == nil) || strings.Join(a, "|") != strings.Join(b, "|") {
				problems = append(problems, c07Problem{h, step, fmt.Sprintf("%s: sequence of sort keys without index %v (err %v), with indexes %v (err %v)", q, a, errA, b, errB), sawFilterDelete})
			}
		}
		if len(problems) > 0 {
			return
		}
	}
	return
}

func c07Alphabet() []c07Op {
	var ops []c07Op
	names := []string{"a", "b"}
	mails := []any{"x@x", "y@y", nil}
	for d := 0; d < 3; d++ {
		// the document id is a function of the creation content: give each logical document its own age
		for _, n := range names {
			for _, m := range mails {
				ops = append(ops, c07Op{Kind: "create", Doc: d, Name: n, Age: int64(d + 1), Mail: m})
			}
		}
	}
	for d := 0; d < 2; d++ {
		for _, n := range names {
			for _, m := range mails {
				ops = append(ops, c07Op{Kind: "update", Doc: d, Name: n, Age: int64(3 - d), Mail: m})
			}
		}
		ops = append(ops, c07Op{Kind: "delete", Doc: d})
	}
	ops = append(ops, c07Op{Kind: "delfilter", Name: "a"})
	return ops
}

// TestGovcC07Index: VERIF_BOUND_N seeded random histories of length VERIF_BOUND_L plus a directed family.
func TestGovcC07Index(t *testing.T) {
	n, L, seed := 150, 6, int64(1)
	full := os.Getenv("VERIF_BOUND_DIRECTED") == "full"
	fmt.Sscanf(os.Getenv("VERIF_BOUND_N"), "%d", &n)
	fmt.Sscanf(os.Getenv("VERIF_BOUND_L"), "%d", &L)
	fmt.Sscanf(os.Getenv("VERIF_SEED"), "%d", &seed)
	ctx := context.Background()
	alpha := c07Alphabet()
	var problems []c07Problem
	cases := 0
	run := func(h []c07Op) {
		cases++
		problems = append(problems, c07Run(t, ctx, h)...)
	}
	// directed: create two documents, change one, remove one (each way), create a third
	creates := []c07Op{}
	for _, o := range alpha {
		if o.Kind == "create" {
			creates = append(creates, o)
		}
	}
	for _, c0 := range creates {
		if c0.Doc != 0 || (!full && !(c0.Name == "a" && c0.Mail == "x@x")) {
			continue
		}
		for _, c1 := range creates {
			if c1.Doc != 1 {
				continue
			}
			for _, mid := range alpha {
				if mid.Kind == "create" {
					continue
				}
				for _, c2 := range creates {
					if c2.Doc != 2 || c2.Name != "a" {
						continue
					}
					run([]c07Op{c0, c1, mid, c2})
					if c1.Mail == nil && (c2.Mail == nil || full) {
						// composite variant: unique (name, age)
						cases++
						problems = append(problems, c07RunVariant(t, ctx, []c07Op{c0, c1, mid, c2}, true)...)
					}
				}
			}
		}
	}
	rng := rand.New(rand.NewSource(seed))
	for i := 0; i < n; i++ {
		var h []c07Op
		for j := 0; j < L; j++ {
			h = append(h, alpha[rng.Intn(len(alpha))])
		}
		run(h)
	}
	out := map[string]any{"cases": cases, "problems": problems, "queries": len(c07Queries) + len(c07OrderedQueries)}
	data, _ := json.MarshalIndent(out, "", " ")
	if p := os.Getenv("VERIF_BOUND_OUT"); p != "" {
		os.WriteFile(p, data, 0o644)
	}
	t.Logf("C07 index differential: cases=%d problems=%d", cases, len(problems))
	if len(problems) > 0 {
		for i, p := range problems {
			if i < 8 {
				t.Logf("%s @%d: %s", p.History, p.Step, p.What)
			}
		}
		t.Fail()
	}
}

// TestGovcC07MergeCreatedAndDeleted: a replica with secondary indexes receives, in one delivery, the
// history "create; delete" of a document it has never seen.  The merge must succeed and leave no index
// entry behind (a query through the index and a full scan agree).
func TestGovcC07MergeCreatedAndDeleted(t *testing.T) {
	ctx := context.Background()
	a := newReplica(t, ctx, "a", c07Indexed)
	b := newReplica(t, ctx, "b", c07Indexed)
	defer a.db.Close()
	defer b.db.Close()
	docID, err := a.create(ctx, `{"name":"a","age":1,"email":"x@x"}`)
	if err != nil {
		t.Fatal(err)
	}
	if err := a.delete(ctx, docID); err != nil {
		t.Fatal(err)
	}
	heads, err := a.docHeads(ctx, docID)
	if err != nil || len(heads) != 1 {
		t.Fatalf("heads: %v %v", heads, err)
	}
	func() {
		defer func() {
			if r := recover(); r != nil {
				t.Fatalf("C07/C01: merging create+delete of an unseen document into an indexed collection panicked: %v", r)
			}
		}()
		if err := deliver(ctx, a, b, docID, heads[0]); err != nil {
			t.Fatalf("C07/C01: merging create+delete of an unseen document into an indexed collection failed: %v", err)
		}
	}()
	for _, q := range c07Queries {
		rows, err := c07Rows(ctx, b.db, q)
		if err != nil || len(rows) != 0 {
			t.Errorf("%s on the receiver: %v (err %v), want no rows", q, rows, err)
		}
	}
	// the unique value is free again on the receiver
	if _, err := b.create(ctx, `{"name":"b","age":2,"email":"x@x"}`); err != nil {
		t.Errorf("C07: unique value of a document that arrived deleted is not free on the receiver: %v", err)
	}
}
