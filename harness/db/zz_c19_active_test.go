// Replay for property C19 (injected with go test -overlay; never in /repo): switching the active schema
// version back to the first version must leave exactly one active version of the collection, and documents
// written under any version must stay readable.

package db

import (
	"context"
	"testing"

	"github.com/sourcenetwork/immutable"
	"github.com/sourcenetwork/lens/host-go/config/model"

	"github.com/sourcenetwork/defradb/client"
)

func c19Active(t *testing.T, ctx context.Context, db *DB) []string {
	cols, err := db.GetCollections(ctx, client.CollectionFetchOptions{IncludeInactive: immutable.Some(true)})
	if err != nil {
		t.Fatal(err)
	}
	var active []string
	for _, c := range cols {
		if c.Name() == "Users" && c.Version().IsActive {
			active = append(active, c.Version().VersionID)
		}
	}
	return active
}

func TestGovcC19SwitchBackToFirstVersion(t *testing.T) {
	ctx := context.Background()
	_, _, store := c05NewDB(t, ctx)
	db := c14Open(t, ctx, store)
	defer db.Close()
	if _, err := db.AddSchema(ctx, `type Users { name: String }`); err != nil {
		t.Fatal(err)
	}
	v1 := c19Active(t, ctx, db)
	if len(v1) != 1 {
		t.Fatalf("active versions after AddSchema: %v", v1)
	}
	n := &c14Node{db: db, ids: map[string]string{}}
	if err := c14Create(ctx, n, "Users", "A", `{"name":"a"}`); err != nil {
		t.Fatal(err)
	}
	err := db.PatchSchema(ctx, `[{ "op": "add", "path": "/Users/Fields/-", "value": {"Name": "email", "Kind": "String"} }]`, immutable.None[model.Lens](), true)
	if err != nil {
		t.Fatal(err)
	}
	v2 := c19Active(t, ctx, db)
	if len(v2) != 1 || v2[0] == v1[0] {
		t.Fatalf("active versions after the patch: %v (first version %v)", v2, v1)
	}
	if err := c14Create(ctx, n, "Users", "B", `{"name":"b","email":"e"}`); err != nil {
		t.Fatal(err)
	}
	// back to the first version
	if err := db.SetActiveSchemaVersion(ctx, v1[0]); err != nil {
		t.Fatal(err)
	}
	back := c19Active(t, ctx, db)
	if len(back) != 1 || back[0] != v1[0] {
		t.Errorf("C19: after switching back to the first version the active versions are %v, want exactly [%s]", back, v1[0])
	}
	res := db.ExecRequest(ctx, `query { Users { name } }`)
	if len(res.GQL.Errors) > 0 {
		t.Errorf("C19: query after switching back: %v", res.GQL.Errors)
	} else if rows, _ := res.GQL.Data.(map[string]any)["Users"].([]map[string]any); len(rows) != 2 {
		t.Errorf("C19: after switching back %d documents are readable, want 2: %v", len(rows), rows)
	}
	// and forth again
	if err := db.SetActiveSchemaVersion(ctx, v2[0]); err != nil {
		t.Fatal(err)
	}
	forth := c19Active(t, ctx, db)
	if len(forth) != 1 || forth[0] != v2[0] {
		t.Errorf("C19: after switching forth again the active versions are %v, want exactly [%s]", forth, v2[0])
	}
}
