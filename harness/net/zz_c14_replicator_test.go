// Bounded stand-in for the replicator part of property C14 (injected with go test -overlay; never in /repo): what
// a sequence of SetReplicator / DeleteReplicator calls leaves in the store is what the running node routes by -
// a restart rebuilds the routing table from the store, so the two must agree at every step.
package net

import (
	"context"
	"fmt"
	"sort"
	"strings"
	"testing"
	"time"

	"github.com/stretchr/testify/require"
)

func c14Routes(p *Peer, peerID string) string {
	p.server.mu.Lock()
	defer p.server.mu.Unlock()
	var cols []string
	for col, peers := range p.server.replicators {
		for id := range peers {
			if id.String() == peerID {
				cols = append(cols, col)
			}
		}
	}
	sort.Strings(cols)
	return strings.Join(cols, ",")
}

func TestGovcC14ReplicatorStoreMatchesRouting(t *testing.T) {
	ctx := context.Background()
	names := []string{"User", "Book", "Item"}
	type step struct {
		del  bool
		cols []string
	}
	// every sequence of two or three calls over {set [one collection], set [two], delete [one]}
	var alphabet []step
	for _, n := range names {
		alphabet = append(alphabet, step{false, []string{n}}, step{true, []string{n}})
	}
	alphabet = append(alphabet, step{false, []string{"User", "Book"}}, step{false, nil})
	cases := 0
	var run func(seq []step)
	run = func(seq []step) {
		cases++
		db1, p1 := newTestPeer(ctx, t)
		defer db1.Close()
		defer p1.Close()
		db2, p2 := newTestPeer(ctx, t)
		defer db2.Close()
		defer p2.Close()
		roots := map[string]string{}
		for _, n := range names {
			_, err := db1.AddSchema(ctx, fmt.Sprintf(`type %s { name: String }`, n))
			require.NoError(t, err)
			_, err = db2.AddSchema(ctx, fmt.Sprintf(`type %s { name: String }`, n))
			require.NoError(t, err)
			col, err := db1.GetCollectionByName(ctx, n)
			require.NoError(t, err)
			roots[n] = col.SchemaRoot()
		}
		var trace []string
		for _, s := range seq {
			var err error
			if s.del {
				err = p1.DeleteReplicator(ctx, p2.PeerInfo(), s.cols...)
				trace = append(trace, fmt.Sprintf("delete%v", s.cols))
			} else {
				err = p1.SetReplicator(ctx, p2.PeerInfo(), s.cols...)
				trace = append(trace, fmt.Sprintf("set%v", s.cols))
			}
			_ = err // a refused call must leave both sides as they were
			reps, err := p1.GetAllReplicators(ctx)
			require.NoError(t, err)
			var stored []string
			for _, r := range reps {
				if r.Info.ID == p2.PeerInfo().ID {
					stored = append(stored, r.CollectionIDs...)
				}
			}
			sort.Strings(stored)
			// the routing table follows through the event bus: give it a moment
			routed := c14Routes(p1, p2.PeerInfo().ID.String())
			for i := 0; i < 200 && strings.Join(stored, ",") != routed; i++ {
				time.Sleep(10 * time.Millisecond)
				routed = c14Routes(p1, p2.PeerInfo().ID.String())
			}
			if strings.Join(stored, ",") != routed {
				t.Errorf("C14: after %v: the store lists collections [%s] for the replicator, the running node routes [%s]", trace, strings.Join(stored, ","), routed)
				return
			}
		}
	}
	for _, a := range alphabet {
		for _, b := range alphabet {
			run([]step{a, b})
		}
	}
	for _, c := range []step{{true, []string{"User"}}, {false, []string{"Item"}}} {
		run([]step{{false, []string{"User"}}, {false, []string{"Book"}}, c})
	}
	t.Logf("replicator cases: %d", cases)
}
