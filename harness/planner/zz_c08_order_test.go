// Replay for property C08 (ordering): injected with go test -overlay, never written into /repo.
package planner

import (
	"testing"

	"github.com/sourcenetwork/defradb/internal/core"
	"github.com/sourcenetwork/defradb/internal/planner/mapper"
)

// Two documents tie on the first ordering key; the second key must decide, in its own direction.
func TestGovcC08MultiKeyOrder(t *testing.T) {
	a := core.Doc{Fields: []any{int64(1), int64(2)}}
	b := core.Doc{Fields: []any{int64(1), int64(1)}}
	for _, dir := range []mapper.SortDirection{mapper.ASC, mapper.DESC} {
		n := &valuesNode{ordering: []mapper.OrderCondition{
			{FieldIndexes: []int{0}, Direction: mapper.ASC},
			{FieldIndexes: []int{1}, Direction: dir},
		}}
		wantBA := dir == mapper.ASC // b.second < a.second
		if got := n.docValueLess(b, a); got != wantBA {
			t.Errorf("second key %s: less(b,a) = %v, want %v", dir, got, wantBA)
		}
		if got := n.docValueLess(a, b); got != !wantBA {
			t.Errorf("second key %s: less(a,b) = %v, want %v", dir, got, !wantBA)
		}
	}
}
