// Replay for property C08 (injected with go test -overlay into tests/integration/query/simple; never in /repo):
// limit/offset cut a slice of the sequence; an offset without a limit keeps everything after the offset
// (as it does for a top-level select).

package simple

import (
	"testing"

	testUtils "github.com/sourcenetwork/defradb/tests/integration"
)

func c08Docs() []any {
	return []any{
		testUtils.CreateDoc{Doc: `{"Name": "A", "Age": 30}`},
		testUtils.CreateDoc{Doc: `{"Name": "B", "Age": 30}`},
		testUtils.CreateDoc{Doc: `{"Name": "C", "Age": 30}`},
	}
}

// reference: a top-level select with an offset and no limit returns everything after the offset
func TestGovcC08_TopLevelOffsetWithoutLimit(t *testing.T) {
	test := testUtils.TestCase{
		Actions: append(c08Docs(), testUtils.Request{
			Request: `query { Users(offset: 1, order: {Name: ASC}) { Name } }`,
			Results: map[string]any{"Users": []map[string]any{{"Name": "B"}, {"Name": "C"}}},
		}),
	}
	executeTestCase(t, test)
}

// the members of a group with an offset and no limit: everything after the offset
func TestGovcC08_GroupOffsetWithoutLimit(t *testing.T) {
	test := testUtils.TestCase{
		Actions: append(c08Docs(), testUtils.Request{
			Request: `query { Users(groupBy: [Age]) { Age _group(offset: 1, order: {Name: ASC}) { Name } } }`,
			Results: map[string]any{"Users": []map[string]any{
				{"Age": int64(30), "_group": []map[string]any{{"Name": "B"}, {"Name": "C"}}},
			}},
		}),
	}
	executeTestCase(t, test)
}
