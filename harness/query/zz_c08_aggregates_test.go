// Replay / bounded check for property C08 (injected with go test -overlay into tests/integration/query/simple):
// each aggregate equals the arithmetic over the listed values, also with nulls, negative numbers, limit/offset.

package simple

import (
	"testing"

	testUtils "github.com/sourcenetwork/defradb/tests/integration"
)

func c08AggDocs() []any {
	return []any{
		testUtils.CreateDoc{Doc: `{"Name": "A", "Age": 1, "HeightM": 1.5}`},
		testUtils.CreateDoc{Doc: `{"Name": "B", "Age": -2, "HeightM": -0.5}`},
		testUtils.CreateDoc{Doc: `{"Name": "C", "Age": 3, "HeightM": 2.25}`},
		testUtils.CreateDoc{Doc: `{"Name": "D"}`},
	}
}

func TestGovcC08_Aggregates_Int(t *testing.T) {
	test := testUtils.TestCase{
		Actions: append(c08AggDocs(), testUtils.Request{
			Request: `query {
				_count(Users: {})
				_sum(Users: {field: Age})
				_min(Users: {field: Age})
				_max(Users: {field: Age})
				_avg(Users: {field: Age})
			}`,
			Results: map[string]any{
				"_count": 4,
				"_sum":   int64(2),
				"_min":   int64(-2),
				"_max":   int64(3),
				"_avg":   float64(2) / float64(3),
			},
		}),
	}
	executeTestCase(t, test)
}

func TestGovcC08_Aggregates_Float(t *testing.T) {
	test := testUtils.TestCase{
		Actions: append(c08AggDocs(), testUtils.Request{
			Request: `query {
				_sum(Users: {field: HeightM})
				_min(Users: {field: HeightM})
				_max(Users: {field: HeightM})
				_avg(Users: {field: HeightM})
			}`,
			Results: map[string]any{
				"_sum": float64(3.25),
				"_min": float64(-0.5),
				"_max": float64(2.25),
				"_avg": float64(3.25) / float64(3),
			},
		}),
	}
	executeTestCase(t, test)
}

func TestGovcC08_Aggregates_AllNegative(t *testing.T) {
	test := testUtils.TestCase{
		Actions: []any{
			testUtils.CreateDoc{Doc: `{"Name": "A", "Age": -5, "HeightM": -1.5}`},
			testUtils.CreateDoc{Doc: `{"Name": "B", "Age": -2, "HeightM": -0.5}`},
			testUtils.Request{
				Request: `query {
					_max(Users: {field: Age})
					_min(Users: {field: Age})
					mh: _max(Users: {field: HeightM})
				}`,
				Results: map[string]any{"_max": int64(-2), "_min": int64(-5), "mh": float64(-0.5)},
			},
		},
	}
	executeTestCase(t, test)
}

func TestGovcC08_Aggregates_LimitOffsetOrder(t *testing.T) {
	test := testUtils.TestCase{
		Actions: append(c08AggDocs(), testUtils.Request{
			Request: `query {
				_sum(Users: {field: Age, order: {Age: DESC}, limit: 2})
				_max(Users: {field: Age, order: {Age: ASC}, limit: 2, filter: {Age: {_ne: null}}})
				_count(Users: {offset: 1})
				_min(Users: {field: Age, filter: {Age: {_gt: 0}}})
			}`,
			Results: map[string]any{"_sum": int64(4), "_max": int64(1), "_count": 3, "_min": int64(1)},
		}),
	}
	executeTestCase(t, test)
}
