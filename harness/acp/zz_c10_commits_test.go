// Replay for property C10 (injected with go test -overlay into tests/integration/acp/dac; never in /repo):
// a document owned by identity 1 is private; a requester without read permission must get from the
// commit-history queries exactly what it would get if the document did not exist.

package test_acp_dac

import (
	"testing"

	"github.com/sourcenetwork/immutable"

	"github.com/sourcenetwork/defradb/tests/action"
	testUtils "github.com/sourcenetwork/defradb/tests/integration"
)

const c10Policy = `
name: test
description: a test policy which marks a collection in a database as a resource
actor:
  name: actor
resources:
  users:
    permissions:
      read:
        expr: owner + reader
      update:
        expr: owner
      delete:
        expr: owner
    relations:
      owner:
        types:
          - actor
      reader:
        types:
          - actor
`

func c10Setup() []any {
	return []any{
		testUtils.AddDACPolicy{Identity: testUtils.ClientIdentity(1), Policy: c10Policy},
		&action.AddSchema{Schema: `
			type Users @policy(id: "{{.Policy0}}", resource: "users") {
				name: String
				age: Int
			}`},
		testUtils.CreateDoc{
			Identity:     testUtils.ClientIdentity(1),
			CollectionID: 0,
			Doc:          `{"name": "Shahzad", "age": 28}`,
		},
	}
}

// the private document is invisible to a plain query of identity 2 (sanity: the guard works there)
func TestGovcC10_PlainQueryHidesPrivateDoc(t *testing.T) {
	test := testUtils.TestCase{
		Actions: append(c10Setup(),
			testUtils.Request{
				Identity: testUtils.ClientIdentity(2),
				Request:  `query { Users { name age } }`,
				Results:  map[string]any{"Users": []map[string]any{}},
			},
		),
	}
	testUtils.ExecuteTestCase(t, test)
}

// commit-history query by another identity: must be what it would be if the document did not exist
func TestGovcC10_CommitsQueryHidesPrivateDoc(t *testing.T) {
	test := testUtils.TestCase{
		Actions: append(c10Setup(),
			testUtils.Request{
				Identity: testUtils.ClientIdentity(2),
				Request:  `query { commits { fieldName docID } }`,
				Results:  map[string]any{"commits": []map[string]any{}},
			},
		),
	}
	testUtils.ExecuteTestCase(t, test)
}

// same without any identity
func TestGovcC10_CommitsQueryNoIdentityHidesPrivateDoc(t *testing.T) {
	test := testUtils.TestCase{
		Actions: append(c10Setup(),
			testUtils.Request{
				Request: `query { commits { fieldName docID } }`,
				Results: map[string]any{"commits": []map[string]any{}},
			},
		),
	}
	testUtils.ExecuteTestCase(t, test)
}

// the owner still sees the history of its document
func TestGovcC10_CommitsQueryOwnerSeesOwnDoc(t *testing.T) {
	test := testUtils.TestCase{
		Actions: append(c10Setup(),
			testUtils.Request{
				Identity: testUtils.ClientIdentity(1),
				Request:  `query { commits { fieldName } }`,
				Results: map[string]any{"commits": []map[string]any{
					{"fieldName": "age"}, {"fieldName": "name"}, {"fieldName": "_C"},
				}},
			},
		),
	}
	testUtils.ExecuteTestCase(t, test)
}

// naming the document explicitly does not help a requester without read permission
func TestGovcC10_CommitsQueryByDocIDHidesPrivateDoc(t *testing.T) {
	test := testUtils.TestCase{
		Actions: append(c10Setup(),
			testUtils.Request{
				Identity: testUtils.ClientIdentity(2),
				Request:  `query { commits(docID: "bae-9d443d0c-52f6-568b-8f74-e8ff0825697b") { fieldName delta } }`,
				Results:  map[string]any{"commits": []map[string]any{}},
			},
			testUtils.Request{
				Identity: testUtils.ClientIdentity(2),
				Request:  `query { latestCommits(docID: "bae-9d443d0c-52f6-568b-8f74-e8ff0825697b") { fieldName delta } }`,
				Results:  map[string]any{"latestCommits": []map[string]any{}},
			},
		),
	}
	testUtils.ExecuteTestCase(t, test)
}

// showDeleted: a requester without read permission gets the public documents only - and gets an answer
func TestGovcC10_ShowDeletedHidesPrivateDocAndReturns(t *testing.T) {
	test := testUtils.TestCase{
		Actions: append(c10Setup(),
			testUtils.CreateDoc{CollectionID: 0, Doc: `{"name": "Public", "age": 1}`},
			testUtils.Request{
				Identity: testUtils.ClientIdentity(2),
				Request:  `query { Users(showDeleted: true) { name } }`,
				Results:  map[string]any{"Users": []map[string]any{{"name": "Public"}}},
			},
		),
	}
	testUtils.ExecuteTestCase(t, test)
}

// An actor who may update but not read a document (update: owner + updater, read: owner + reader), on a
// collection with a secondary index: the update must succeed or be refused with an error - not crash.
func TestGovcC10_UpdaterWithoutReadOnIndexedCollection(t *testing.T) {
	test := testUtils.TestCase{
		SupportedMutationTypes: immutable.Some([]testUtils.MutationType{testUtils.CollectionSaveMutationType}),
		Actions: []any{
			testUtils.AddDACPolicy{Identity: testUtils.ClientIdentity(1), Policy: `
name: test
description: a policy whose update permission does not imply read
actor:
  name: actor
resources:
  users:
    permissions:
      read:
        expr: owner + reader
      update:
        expr: owner + updater
      delete:
        expr: owner
    relations:
      owner:
        types:
          - actor
      reader:
        types:
          - actor
      updater:
        types:
          - actor
`},
			&action.AddSchema{Schema: `
				type Users @policy(id: "{{.Policy0}}", resource: "users") {
					name: String @index
					age: Int
				}`},
			testUtils.CreateDoc{Identity: testUtils.ClientIdentity(1), CollectionID: 0, Doc: `{"name": "Shahzad", "age": 28}`},
			testUtils.AddDACActorRelationship{
				RequestorIdentity: testUtils.ClientIdentity(1), TargetIdentity: testUtils.ClientIdentity(2),
				CollectionID: 0, DocID: 0, Relation: "updater", ExpectedExistence: false,
			},
			testUtils.UpdateDoc{Identity: testUtils.ClientIdentity(2), CollectionID: 0, DocID: 0, Doc: `{"name": "Changed"}`, SkipLocalUpdateEvent: true},
			testUtils.Request{
				Identity: testUtils.ClientIdentity(1),
				Request:  `query { Users(filter: {name: {_eq: "Changed"}}) { name } }`,
				Results:  map[string]any{"Users": []map[string]any{{"name": "Changed"}}},
			},
		},
	}
	testUtils.ExecuteTestCase(t, test)
}
