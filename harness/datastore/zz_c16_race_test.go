// Replay harness for property C16 (injected with `go test -race -overlay`, never written into /repo):
// goroutines share one transaction obtained from NewConcurrentTxnFrom and use the stores it hands out.
// With the race detector on, unsynchronised access inside the store's transaction fails the test.
package datastore

import (
	"context"
	"fmt"
	"sync"
	"testing"

	badgerds "github.com/dgraph-io/badger/v4"
	"github.com/sourcenetwork/corekv/badger"
)

func TestGovcC16ConcurrentTxn(t *testing.T) {
	ctx := context.Background()
	root, err := badger.NewDatastore("", badgerds.DefaultOptions("").WithInMemory(true).WithLoggingLevel(badgerds.ERROR))
	if err != nil {
		t.Fatal(err)
	}
	defer root.Close()
	txn := NewConcurrentTxnFrom(ctx, root, 1, false)
	defer txn.Discard(ctx)
	var wg sync.WaitGroup
	for g := 0; g < 8; g++ {
		wg.Add(1)
		go func(g int) {
			defer wg.Done()
			for i := 0; i < 200; i++ {
				k := []byte(fmt.Sprintf("/k/%d/%d", g, i))
				if err := txn.Datastore().Set(ctx, k, []byte("v")); err != nil {
					t.Error(err)
					return
				}
				if _, err := txn.Datastore().Get(ctx, k); err != nil {
					t.Error(err)
					return
				}
				if _, err := txn.Headstore().Has(ctx, k); err != nil {
					t.Error(err)
					return
				}
			}
		}(g)
	}
	wg.Wait()
}
