// Bounded stand-in for the event bus part of property C20 (injected with go test -overlay; never in /repo):
// every subscriber of an event name receives every message published under that name, in publication
// order, whatever other subscribers do (subscribe, unsubscribe) in between.

package event

import (
	"fmt"
	"testing"
	"time"
)

func c20Drain(sub Subscription, n int) []string {
	var got []string
	for len(got) < n {
		select {
		case m, ok := <-sub.Message():
			if !ok {
				return got
			}
			got = append(got, fmt.Sprint(m.Name, ":", m.Data))
		case <-time.After(2 * time.Second):
			return got
		}
	}
	return got
}

// for every number of subscribers k in 1..4 and every subset that unsubscribes between two publications,
// the remaining subscribers get both messages and the leavers get the first only
func TestGovcC20BusUnsubscribeLeavesOthers(t *testing.T) {
	for k := 1; k <= 4; k++ {
		for leave := 0; leave < 1<<k; leave++ {
			bus := NewChannelBus(10, 10)
			subs := make([]Subscription, k)
			for i := range subs {
				s, err := bus.Subscribe(UpdateName, MergeCompleteName)
				if err != nil {
					t.Fatal(err)
				}
				subs[i] = s
			}
			bus.Publish(NewMessage(UpdateName, 1))
			for i := range subs {
				if got := c20Drain(subs[i], 1); len(got) != 1 {
					t.Fatalf("k=%d: subscriber %d did not get the first message: %v", k, i, got)
				}
			}
			for i := range subs {
				if leave&(1<<i) != 0 {
					bus.Unsubscribe(subs[i])
				}
			}
			bus.Publish(NewMessage(UpdateName, 2))
			bus.Publish(NewMessage(MergeCompleteName, 3))
			for i := range subs {
				if leave&(1<<i) != 0 {
					continue
				}
				got := c20Drain(subs[i], 2)
				want := []string{fmt.Sprint(UpdateName, ":", 2), fmt.Sprint(MergeCompleteName, ":", 3)}
				if fmt.Sprint(got) != fmt.Sprint(want) {
					t.Errorf("C20: %d subscribers, leavers mask %b: subscriber %d received %v after the others left, want %v", k, leave, i, got, want)
				}
			}
			bus.Close()
		}
	}
}

// subscribers of a name next to subscribers of everything (the wildcard): each subscriber kind ∈ {name A,
// name B, wildcard}; every combination of up to three subscribers, every subset leaving between two rounds of
// publications; a subscriber receives exactly the messages of its names (the wildcard: all), in order, exactly once
func TestGovcC20BusWildcardNextToNamed(t *testing.T) {
	kinds := [][]Name{{UpdateName}, {MergeCompleteName}, {WildCardName}}
	wants := func(kind int, n Name) bool {
		return kind == 2 || kinds[kind][0] == n
	}
	cases := 0
	for k := 1; k <= 3; k++ {
		total := 1
		for i := 0; i < k; i++ {
			total *= 3
		}
		for combo := 0; combo < total; combo++ {
			kind := make([]int, k)
			c := combo
			for i := range kind {
				kind[i] = c % 3
				c /= 3
			}
			for leave := 0; leave < 1<<k; leave++ {
				cases++
				bus := NewChannelBus(10, 10)
				subs := make([]Subscription, k)
				for i := range subs {
					s, err := bus.Subscribe(kinds[kind[i]]...)
					if err != nil {
						t.Fatal(err)
					}
					subs[i] = s
				}
				round := func(base int, active func(i int) bool) {
					bus.Publish(NewMessage(UpdateName, base))
					bus.Publish(NewMessage(MergeCompleteName, base+1))
					for i := range subs {
						if !active(i) {
							continue
						}
						var want []string
						if wants(kind[i], UpdateName) {
							want = append(want, fmt.Sprint(UpdateName, ":", base))
						}
						if wants(kind[i], MergeCompleteName) {
							want = append(want, fmt.Sprint(MergeCompleteName, ":", base+1))
						}
						got := c20Drain(subs[i], len(want))
						// nothing more than that may be waiting
						select {
						case m, ok := <-subs[i].Message():
							if ok {
								got = append(got, fmt.Sprint("extra ", m.Name, ":", m.Data))
							}
						case <-time.After(5 * time.Millisecond):
						}
						if fmt.Sprint(got) != fmt.Sprint(want) {
							t.Errorf("C20: subscriber kinds %v (0: update, 1: merge-complete, 2: wildcard), leavers mask %b, round %d: subscriber %d received %v, want %v", kind, leave, base, i, got, want)
						}
					}
				}
				round(10, func(int) bool { return true })
				for i := range subs {
					if leave&(1<<i) != 0 {
						bus.Unsubscribe(subs[i])
					}
				}
				round(20, func(i int) bool { return leave&(1<<i) == 0 })
				bus.Close()
			}
		}
	}
	t.Logf("wildcard cases: %d", cases)
}
