// Bounded stand-in for the event bus part of property C20 (injected with go test -overlay; never in /repo):
// every subscriber of an event name receives every message published under that name, in publication
// order, whatever other subscribers do (subscribe, unsubscribe) in between.

package event

import (
	"fmt"
	"testing"
	"time"
)

func c20Drain(sub Subscription, n int) []string {
	var got []string
	for len(got) < n {
		select {
		case m, ok := <-sub.Message():
			if !ok {
				return got
			}
			got = append(got, fmt.Sprint(m.Name, ":", m.Data))
		case <-time.After(2 * time.Second):
			return got
		}
	}
	return got
}

// for every number of subscribers k in 1..4 and every subset that unsubscribes between two publications,
// the remaining subscribers get both messages and the leavers get the first only
func TestGovcC20BusUnsubscribeLeavesOthers(t *testing.T) {
	for k := 1; k <= 4; k++ {
		for leave := 0; leave < 1<<k; leave++ {
			bus := NewChannelBus(10, 10)
			subs := make([]Subscription, k)
			for i := range subs {
				s, err := bus.Subscribe(UpdateName, MergeCompleteName)
				if err != nil {
					t.Fatal(err)
				}
				subs[i] = s
			}
			bus.Publish(NewMessage(UpdateName, 1))
			for i := range subs {
				if got := c20Drain(subs[i], 1); len(got) != 1 {
					t.Fatalf("k=%d: subscriber %d did not get the first message: %v", k, i, got)
				}
			}
			for i := range subs {
				if leave&(1<<i) != 0 {
					bus.Unsubscribe(subs[i])
				}
			}
			bus.Publish(NewMessage(UpdateName, 2))
			bus.Publish(NewMessage(MergeCompleteName, 3))
			for i := range subs {
				if leave&(1<<i) != 0 {
					continue
				}
				got := c20Drain(subs[i], 2)
				want := []string{fmt.Sprint(UpdateName, ":", 2), fmt.Sprint(MergeCompleteName, ":", 3)}
				if fmt.Sprint(got) != fmt.Sprint(want) {
					t.Errorf("C20: %d subscribers, leavers mask %b: subscriber %d received %v after the others left, want %v", k, leave, i, got, want)
				}
			}
			bus.Close()
		}
	}
}
