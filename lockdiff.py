#!/usr/bin/env python3
"""lockdiff.py [rev]: obligations that are in the lock file of <rev> (default HEAD) and no longer in the
working copy's lock file.  A relock silently leaves out obligations that stopped discharging; every name
printed here needs a reason (contract changed, function gone) before the new lock is committed."""
import json, subprocess, sys
rev = sys.argv[1] if len(sys.argv) > 1 else 'HEAD'
old = json.loads(subprocess.run(['git', '-C', '/verif', 'show', rev + ':obligations.lock.json'], capture_output=True, text=True).stdout)
new = json.load(open('/verif/obligations.lock.json'))
def names(d):
    out = set()
    for prop, v in d.items():
        ob = v if isinstance(v, list) else v.get('obligations', v)
        if isinstance(ob, dict):
            ob = list(ob.keys())
        for o in ob:
            out.add((prop, o if isinstance(o, str) else o.get('name')))
    return out
gone = sorted(names(old) - names(new))
for p, n in gone:
    print(f'DROPPED-FROM-LOCK {p} {n}')
print(f'lockdiff: {len(gone)} obligations of {rev} are no longer locked')
