#!/bin/bash
# Runs the repository's test suite (guard off) and compares with the stable_pass list of BASELINE.json.
# Usage: baseline_check.sh [out.json]   (takes ~25 minutes)
out=${1:-/var/tmp/verif-baseline.json}
cd ${BASE_DIR:-/repo} && export GOFLAGS=-mod=mod GOPROXY=off
go test -mod=mod -json -vet=off -count=1 -timeout 25m ./... > "$out" 2>/var/tmp/verif-baseline.err
python3 - "$out" <<'PY'
import json,sys
res={}
for l in open(sys.argv[1]):
    try: e=json.loads(l)
    except Exception: continue
    if e.get('Test') and e.get('Action') in ('pass','fail','skip'):
        res[e['Package']+'::'+e['Test']]=e['Action']
b=json.load(open('/root/.vp/BASELINE.json'))
bad=[t for t in b['stable_pass'] if res.get(t)!='pass']
print('stable_pass:',len(b['stable_pass']),'not passing now:',len(bad))
for t in bad[:40]: print('  ',t,res.get(t))
PY
