package main

import (
	"fmt"
	"go/types"

	"golang.org/x/tools/go/ssa"
)

// Intrinsics: standard-library functions whose exact semantics are built into the engine
// (ledger A5).  Everything else needs an extern contract.
var intrinsics = map[string]bool{
	"math.Float64bits": true, "math.Float32bits": true, "math.Float64frombits": true, "math.Float32frombits": true,
	"math.IsNaN": true, "math.NaN": true, "math.Inf": true, "math.IsInf": true, "math.Abs": true,
	"(binary.bigEndian).Uint16": true, "(binary.bigEndian).Uint32": true, "(binary.bigEndian).Uint64": true,
	"errors.Is": true, "errors.Join": true,
	"(binary.bigEndian).PutUint32": true, "(binary.bigEndian).PutUint64": true, "(binary.bigEndian).PutUint16": true,
}

func (w *World) intrinsic(full string) bool { return intrinsics[full] }

func (g *gen) doIntrinsic(x *ssa.Call, full string) bool {
	if !intrinsics[full] {
		return false
	}
	args := x.Call.Args
	switch full {
	case "errors.Is":
		e, t := g.operand(args[0]), g.operand(args[1])
		g.declare("errIs", "(declare-fun errIs (Err Err) Bool)")
		g.setVal(x, and(not(sx("=", e.S, "errnil")), sx("errIs", e.S, t.S)))
	case "errors.Join":
		// variadic: the result is nil exactly when every argument is nil
		n, ok := constLenOfSlice(args[0])
		r := g.freshVal(x)
		if !ok {
			return true
		}
		sl := g.operand(args[0])
		h := g.heapSlice(sErr)
		var nils []string
		for k := int64(0); k < n; k++ {
			nils = append(nils, sx("=", sx("select", sx("select", g.comp(h, ""), sx("s.reg", sl.S)), g.idxAdd(sx("s.off", sl.S), g.idxLit(k))), "errnil"))
		}
		g.assume(sx("=", sx("=", r.S, "errnil"), and(nils...)))
	case "math.Float64bits", "math.Float32bits":
		f := g.operand(args[0])
		r := g.freshVal(x)
		eb, sb := fpBits(f.Sort)
		g.assume(sx("=", sx(fmt.Sprintf("(_ to_fp %d %d)", eb, sb), r.S), f.S))
	case "math.Float64frombits":
		g.setVal(x, sx("(_ to_fp 11 53)", g.operand(args[0]).S))
	case "math.Float32frombits":
		g.setVal(x, sx("(_ to_fp 8 24)", g.operand(args[0]).S))
	case "math.IsNaN":
		g.setVal(x, sx("fp.isNaN", g.operand(args[0]).S))
	case "math.NaN":
		g.setVal(x, "(_ NaN 11 53)")
	case "math.Abs":
		g.setVal(x, sx("fp.abs", g.operand(args[0]).S))
	case "math.Inf":
		s := g.operand(args[0])
		g.setVal(x, sx("ite", g.idxLe(g.idxLit(0), s.S), "(_ +oo 11 53)", "(_ -oo 11 53)"))
	case "math.IsInf":
		f, s := g.operand(args[0]), g.operand(args[1])
		z := g.idxLit(0)
		g.setVal(x, or(and(g.idxLe(z, s.S), sx("=", f.S, "(_ +oo 11 53)")), and(g.idxLe(s.S, z), sx("=", f.S, "(_ -oo 11 53)"))))
	case "(binary.bigEndian).Uint16", "(binary.bigEndian).Uint32", "(binary.bigEndian).Uint64":
		n := map[string]int{"(binary.bigEndian).Uint16": 2, "(binary.bigEndian).Uint32": 4, "(binary.bigEndian).Uint64": 8}[full]
		b := g.operand(args[len(args)-1])
		if g.noPanic() {
			g.oblige("nopanic", g.npName("index"), "binary.BigEndian read within bounds", g.idxLe(g.idxLit(int64(n)), sx("s.len", b.S)), x.Pos())
		}
		h := g.heapSlice(bvSort(8))
		base := sx("select", g.comp(h, ""), sx("s.reg", b.S))
		t := ""
		for k := 0; k < n; k++ {
			by := sx("select", base, g.idxAdd(sx("s.off", b.S), g.idxLit(int64(k))))
			if k == 0 {
				t = by
			} else {
				t = sx("concat", t, by)
			}
		}
		g.setVal(x, t)
	case "(binary.bigEndian).PutUint16", "(binary.bigEndian).PutUint32", "(binary.bigEndian).PutUint64":
		n := map[string]int{"(binary.bigEndian).PutUint16": 2, "(binary.bigEndian).PutUint32": 4, "(binary.bigEndian).PutUint64": 8}[full]
		b := g.operand(args[len(args)-2])
		v := g.operand(args[len(args)-1])
		if g.noPanic() {
			g.oblige("nopanic", g.npName("index"), "binary.BigEndian write within bounds", g.idxLe(g.idxLit(int64(n)), sx("s.len", b.S)), x.Pos())
		}
		h := g.heapSlice(bvSort(8))
		cur := g.comp(h, "")
		c := sx("select", cur, sx("s.reg", b.S))
		for k := 0; k < n; k++ {
			hi := (n-k)*8 - 1
			c = sx("store", c, g.idxAdd(sx("s.off", b.S), g.idxLit(int64(k))), sx(fmt.Sprintf("(_ extract %d %d)", hi, hi-7), v.S))
		}
		g.setComp(h, sx("store", cur, sx("s.reg", b.S), c))
	}
	return true
}

var _ = types.Typ
