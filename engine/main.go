package main

import (
	"go/token"
	"go/types"
	"golang.org/x/tools/go/ssa"
	"encoding/json"
	"flag"
	"fmt"
	"os"
	"path/filepath"
	"runtime/debug"
	"sort"
	"strings"
	"sync"
	"time"
)

const verifDir = "/verif"

func fatal(f string, a ...any) {
	fmt.Fprintf(os.Stderr, "govc: "+f+"\n", a...)
	os.Exit(2)
}

// contractDirs: directories of /repo that hold contract files
func contractDirs(repo string) []string {
	var dirs []string
	filepath.WalkDir(repo, func(p string, d os.DirEntry, err error) error {
		if err != nil {
			return nil
		}
		if d.IsDir() && (d.Name() == ".git" || d.Name() == "node_modules") {
			return filepath.SkipDir
		}
		if !d.IsDir() && strings.HasPrefix(d.Name(), "zz_contracts") && strings.HasSuffix(d.Name(), "_verif.go") {
			rel, _ := filepath.Rel(repo, filepath.Dir(p))
			dirs = append(dirs, rel)
		}
		return nil
	})
	sort.Strings(dirs)
	var out []string
	for i, d := range dirs {
		if i == 0 || dirs[i-1] != d {
			out = append(out, d)
		}
	}
	return out
}

func hasTag(tags []string, t string) bool {
	for _, x := range tags {
		if x == t {
			return true
		}
	}
	return false
}

type genResult struct {
	obls    []*Obl
	gens    []*gen
	errors  []string
	funcs   []string
	assumes []string
}

// generate builds all obligations of contracts tagged with prop ("" = all).
func generate(w *World, prop string, only string) *genResult {
	r := &genResult{}
	for _, ct := range w.contractsSorted() {
		if prop != "" && !hasTag(ct.Tags, prop) {
			continue
		}
		if only != "" && !strings.Contains(ct.FullKey, only) {
			continue
		}
		switch ct.Kind {
		case "func":
			fn := w.funcsByKey[ct.FullKey]
			if fn == nil {
				r.errors = append(r.errors, fmt.Sprintf("contract %s (%s:%d): no such function in the current tree", ct.FullKey, ct.File, ct.Line))
				// the locked obligations of this function will be reported as missing
				continue
			}
			g := newGen(w, fn, ct)
			func() {
				defer func() {
					if e := recover(); e != nil {
						if se, ok := e.(specErr); ok {
							r.errors = append(r.errors, fmt.Sprintf("%s: %s", ct.FullKey, se.msg))
						} else {
							r.errors = append(r.errors, fmt.Sprintf("%s: engine panic: %v\n%s", ct.FullKey, e, debug.Stack()))
						}
						g.obls = nil
					}
				}()
				g.run()
			}()
			for _, a := range ct.Asserts {
				if !a.Used && len(g.obls) > 0 {
					r.errors = append(r.errors, fmt.Sprintf("%s: assert anchor call#%d %s matches no call", ct.FullKey, a.Ord, a.Callee))
					// an anchor that matches nothing is reported as a (missing) obligation of its own
					when := "before"
					if a.After {
						when = "after"
					}
					g.obls = append(g.obls, &Obl{Name: fmt.Sprintf("%s#assert-anchor@%s.call#%d.%s", ct.FullKey, when, a.Ord, a.Callee), Func: ct.FullKey,
						Clause: "anchor of an in-body assertion exists: " + a.Cl.Text, Goal: "false", G: g, Kind: "assert", Tags: ct.Tags})
				}
			}
			for _, t := range ct.Tolerates {
				if !t.Used && len(g.obls) > 0 {
					r.errors = append(r.errors, fmt.Sprintf("%s: tolerates call#%d %s matches no call", ct.FullKey, t.Ord, t.Callee))
				}
			}
			r.gens = append(r.gens, g)
			r.obls = append(r.obls, g.obls...)
			r.funcs = append(r.funcs, ct.FullKey)
		case "lemma":
			g := newGen(w, nil, ct)
			func() {
				defer func() {
					if e := recover(); e != nil {
						if se, ok := e.(specErr); ok {
							r.errors = append(r.errors, fmt.Sprintf("%s: %s", ct.FullKey, se.msg))
						} else {
							r.errors = append(r.errors, fmt.Sprintf("%s: engine panic: %v\n%s", ct.FullKey, e, debug.Stack()))
						}
						g.obls = nil
					}
				}()
				g.runLemma()
			}()
			r.gens = append(r.gens, g)
			r.obls = append(r.obls, g.obls...)
		}
	}
	// package-wide structural disciplines
	for _, u := range w.cs.Units {
		for i, dd := range u.DetDisciplines {
			if prop != "" && !hasTag(dd.Tags, prop) {
				continue
			}
			r.obls = append(r.obls, detDisciplineObls(w, u, dd, i+1)...)
		}
		for i, rd := range u.ReachDisciplines {
			if prop != "" && !hasTag(rd.Tags, prop) {
				continue
			}
			r.obls = append(r.obls, reachDisciplineObl(w, u, rd, i+1))
		}
		for i, fz := range u.FrozenDisciplines {
			if prop != "" && !hasTag(fz.Tags, prop) {
				continue
			}
			if sp := w.pkgs[u.Pkg]; sp != nil {
				r.obls = append(r.obls, frozenDisciplineObl(w, u, sp, fz, i+1))
			}
		}
		for i, tags := range u.SortDisciplines {
			if prop != "" && !hasTag(tags, prop) {
				continue
			}
			if sp := w.pkgs[u.Pkg]; sp != nil {
				r.obls = append(r.obls, sortDisciplineObl(w, u, sp, tags, i+1))
			}
		}
		for _, fd := range u.FieldDisciplines {
			if prop != "" && !hasTag(fd.Tags, prop) {
				continue
			}
			if sp := w.pkgs[u.Pkg]; sp != nil {
				r.obls = append(r.obls, fieldDisciplineObl(w, u, sp, fd))
			} else {
				r.errors = append(r.errors, fmt.Sprintf("discipline %s.%s: package %s not loaded", fd.Struct, fd.Field, u.Pkg))
			}
		}
	}
	return r
}

// fieldDisciplineObl: every function of the package (closures included) that addresses or reads the
// field must be on the allowed list.  Decided from the SSA; the obligation's goal is the verdict.
func fieldDisciplineObl(w *World, u *Unit, sp *ssa.Package, fd FieldDiscipline) *Obl {
	allowed := map[string]bool{}
	for _, a := range fd.Allowed {
		allowed[a] = true
	}
	var offenders []string
	var visit func(fn *ssa.Function)
	seen := map[*ssa.Function]bool{}
	visit = func(fn *ssa.Function) {
		if fn == nil || seen[fn] {
			return
		}
		seen[fn] = true
		key := w.keyOf(fn)
		root := key
		if i := strings.Index(root, "$"); i > 0 {
			root = root[:i]
		}
		for _, b := range fn.Blocks {
			for _, in := range b.Instrs {
				var st *types.Struct
				var named types.Type
				idx := -1
				switch x := in.(type) {
				case *ssa.FieldAddr:
					if fd.WriteOnly && onlyLoaded(x) {
						continue
					}
					named = x.X.Type().Underlying().(*types.Pointer).Elem()
					st, _ = named.Underlying().(*types.Struct)
					idx = x.Field
				case *ssa.Field:
					if fd.WriteOnly {
						continue
					}
					named = x.X.Type()
					st, _ = named.Underlying().(*types.Struct)
					idx = x.Field
				}
				if st == nil || idx < 0 {
					continue
				}
				if n, ok := types.Unalias(named).(*types.Named); ok && n.Obj().Name() == fd.Struct && n.Obj().Pkg() == sp.Pkg && st.Field(idx).Name() == fd.Field {
					if !allowed[root] {
						offenders = append(offenders, key)
					}
				}
			}
		}
		for _, an := range fn.AnonFuncs {
			visit(an)
		}
	}
	for _, m := range sp.Members {
		switch x := m.(type) {
		case *ssa.Function:
			visit(x)
		case *ssa.Type:
			for _, t := range []types.Type{x.Type(), types.NewPointer(x.Type())} {
				ms := w.prog.MethodSets.MethodSet(t)
				for i := 0; i < ms.Len(); i++ {
					if fn := w.prog.MethodValue(ms.At(i)); fn != nil && fn.Pkg == sp {
						visit(fn)
					}
				}
			}
		}
	}
	sort.Strings(offenders)
	goal := "true"
	verb := "touched"
	if fd.WriteOnly {
		verb = "written (or its address taken)"
	}
	clause := fmt.Sprintf("field %s.%s is only %s by %s", fd.Struct, fd.Field, verb, strings.Join(fd.Allowed, ", "))
	if len(offenders) > 0 {
		goal = "false"
		clause += "; offenders: " + strings.Join(offenders, ", ")
	}
	g := &gen{w: w, declared: map[string]bool{}}
	return &Obl{Name: fmt.Sprintf("%s#field.%s.%s", u.PkgName, fd.Struct, fd.Field), Func: u.PkgName, Clause: clause, Goal: goal, G: g, Kind: "discipline", Tags: fd.Tags}
}

// frozenDisciplineObl: for every closure handed to the registrar, the variables it captures by reference
// are not stored to at any program point that can follow the registration.
func frozenDisciplineObl(w *World, u *Unit, sp *ssa.Package, fz FrozenDiscipline, n int) *Obl {
	var offenders []string
	g0 := &gen{w: w, declared: map[string]bool{}}
	var visit func(fn *ssa.Function)
	seen := map[*ssa.Function]bool{}
	// blocks that can follow `from` without passing through `avoid` (the block that allocates the captured
	// variable: once it runs again, later stores go to a new variable)
	reachableFrom := func(from, avoid *ssa.BasicBlock) map[*ssa.BasicBlock]bool {
		r := map[*ssa.BasicBlock]bool{}
		stack := append([]*ssa.BasicBlock{}, from.Succs...)
		for len(stack) > 0 {
			b := stack[len(stack)-1]
			stack = stack[:len(stack)-1]
			if r[b] || (b == avoid && b != from) {
				continue
			}
			r[b] = true
			stack = append(stack, b.Succs...)
		}
		return r
	}
	visit = func(fn *ssa.Function) {
		if fn == nil || seen[fn] {
			return
		}
		seen[fn] = true
		g0.fn = fn
		for _, b := range fn.Blocks {
			for idx, in := range b.Instrs {
				call, ok := in.(ssa.CallInstruction)
				if !ok {
					continue
				}
				c := call.Common()
				full, short := g0.calleeName(c)
				if full != fz.Registrar && short != fz.Registrar && "("+short+")" != fz.Registrar {
					continue
				}
				for _, a := range c.Args {
					mc, ok := a.(*ssa.MakeClosure)
					if !ok {
						continue
					}
					for _, bnd := range mc.Bindings {
						al, ok := bnd.(*ssa.Alloc)
						if !ok {
							continue
						}
						after := reachableFrom(b, al.Block())
						check := func(blk *ssa.BasicBlock, from int) {
							for j, x := range blk.Instrs {
								if j < from {
									continue
								}
								if st, ok := x.(*ssa.Store); ok && rootAlloc(st.Addr) == al {
									offenders = append(offenders, fmt.Sprintf("%s: %s is assigned at %s after a closure capturing it was registered", w.keyOf(fn), al.Comment, w.pos(st.Pos())))
								}
							}
						}
						check(b, idx+1)
						for blk := range after {
							check(blk, 0)
						}
					}
				}
			}
		}
		for _, an := range fn.AnonFuncs {
			visit(an)
		}
	}
	for _, m := range sp.Members {
		switch x := m.(type) {
		case *ssa.Function:
			visit(x)
		case *ssa.Type:
			for _, t := range []types.Type{x.Type(), types.NewPointer(x.Type())} {
				ms := w.prog.MethodSets.MethodSet(t)
				for i := 0; i < ms.Len(); i++ {
					if fn := w.prog.MethodValue(ms.At(i)); fn != nil && fn.Pkg == sp {
						visit(fn)
					}
				}
			}
		}
	}
	g0.fn, g0.unit = nil, u
	sort.Strings(offenders)
	goal := "true"
	clause := "variables captured by closures handed to " + fz.Registrar + " are not assigned after the registration"
	if len(offenders) > 0 {
		goal = "false"
		clause += "; offenders: " + strings.Join(offenders, "; ")
	}
	return &Obl{Name: fmt.Sprintf("%s#captures-frozen#%d", u.PkgName, n), Func: u.PkgName, Clause: clause, Goal: goal, G: g0, Kind: "discipline", Tags: fz.Tags}
}

// onlyLoaded: the field address is used for loads only
func onlyLoaded(x *ssa.FieldAddr) bool {
	refs := x.Referrers()
	if refs == nil {
		return false
	}
	for _, r := range *refs {
		switch u := r.(type) {
		case *ssa.UnOp:
			if u.Op != token.MUL {
				return false
			}
		case *ssa.DebugRef:
		default:
			return false
		}
	}
	return true
}

// reachDisciplineObl: breadth-first search over the static call graph of every function that has a
// body in the loaded program.  Interface calls are resolved by method name to every method of that
// name in the module (an over-approximation); dynamic calls of function values are followed into the
// closures created in the same function.
func reachDisciplineObl(w *World, u *Unit, rd ReachDiscipline, n int) *Obl {
	forbidden := map[string]bool{}
	for _, f := range rd.Forbidden {
		forbidden[f] = true
	}
	byMethod := map[string][]*ssa.Function{}
	for _, fn := range w.funcsByKey {
		if fn.Signature.Recv() != nil && fn.Blocks != nil {
			byMethod[fn.Name()] = append(byMethod[fn.Name()], fn)
		}
	}
	type item struct {
		fn   *ssa.Function
		path string
	}
	var queue []item
	seen := map[*ssa.Function]bool{}
	var missing []string
	for _, r := range rd.Roots {
		fn := w.funcsByKey[r]
		if fn == nil {
			missing = append(missing, r)
			continue
		}
		queue = append(queue, item{fn, r})
		seen[fn] = true
	}
	var offenders []string
	g := &gen{w: w, declared: map[string]bool{}}
	for len(queue) > 0 {
		it := queue[0]
		queue = queue[1:]
		push := func(f *ssa.Function) {
			if f != nil && !seen[f] && f.Blocks != nil {
				seen[f] = true
				queue = append(queue, item{f, it.path + " -> " + w.keyOf(f)})
			}
		}
		for _, b := range it.fn.Blocks {
			for _, in := range b.Instrs {
				switch x := in.(type) {
				case ssa.CallInstruction:
					c := x.Common()
					if _, isB := c.Value.(*ssa.Builtin); isB {
						continue
					}
					full, _ := g.calleeName(c)
					if forbidden[full] {
						offenders = append(offenders, it.path+" calls "+full)
					}
					if c.IsInvoke() {
						iface, _ := c.Value.Type().Underlying().(*types.Interface)
						for _, m := range byMethod[c.Method.Name()] {
							// class-hierarchy resolution: only types that implement the interface
							if iface != nil && !types.Implements(m.Signature.Recv().Type(), iface) {
								continue
							}
							push(m)
						}
					} else if f := c.StaticCallee(); f != nil {
						push(f)
					}
				case *ssa.MakeClosure:
					push(x.Fn.(*ssa.Function))
				}
			}
		}
	}
	sort.Strings(offenders)
	goal := "true"
	clause := fmt.Sprintf("no function reachable from %s calls %s (%d functions explored)", strings.Join(rd.Roots, ", "), strings.Join(rd.Forbidden, ", "), len(seen))
	if len(offenders) > 0 || len(missing) > 0 {
		goal = "false"
		if len(offenders) > 3 {
			offenders = offenders[:3]
		}
		clause += "; offenders: " + strings.Join(offenders, " | ") + strings.Join(missing, " missing ")
	}
	return &Obl{Name: fmt.Sprintf("%s#no-reach#%d", u.PkgName, n), Func: u.PkgName, Clause: clause, Goal: goal, G: g, Kind: "discipline", Tags: rd.Tags}
}

// detDisciplineObls: one obligation per listed function.
func detDisciplineObls(w *World, u *Unit, dd DetDiscipline, n int) []*Obl {
	allowed := map[string]bool{}
	for _, a := range dd.Allowed {
		allowed[a] = true
	}
	for _, f := range dd.Funcs {
		allowed[f] = true
	}
	var obls []*Obl
	g := &gen{w: w, declared: map[string]bool{}}
	for _, key := range dd.Funcs {
		fn := w.funcsByKey[key]
		var bad []string
		if fn == nil {
			bad = append(bad, "no such function")
		}
		var visit func(f *ssa.Function)
		visit = func(f *ssa.Function) {
			for _, b := range f.Blocks {
				for _, in := range b.Instrs {
					switch x := in.(type) {
					case *ssa.Go:
						bad = append(bad, "go statement")
					case *ssa.Select:
						bad = append(bad, "select")
					case *ssa.Send:
						bad = append(bad, "channel send")
					case *ssa.UnOp:
						if x.Op == token.ARROW {
							bad = append(bad, "channel receive")
						}
					case *ssa.Range:
						if _, isMap := x.X.Type().Underlying().(*types.Map); isMap {
							bad = append(bad, "iteration over a map at "+w.pos(x.Pos()))
						}
					case *ssa.MakeClosure:
						visit(x.Fn.(*ssa.Function))
					case ssa.CallInstruction:
						c := x.Common()
						if _, isB := c.Value.(*ssa.Builtin); isB {
							continue
						}
						full, _ := g.calleeName(c)
						if _, isClosure := c.Value.(*ssa.MakeClosure); isClosure {
							continue
						}
						ok := allowed[full]
						for a := range allowed {
							if !ok && strings.Contains(a, "*") && !strings.HasPrefix(a, "(*") && globMatch(a, full) {
								ok = true
							}
						}
						if !ok {
							bad = append(bad, "call of "+full+" at "+w.pos(x.Pos()))
						}
					}
				}
			}
		}
		if fn != nil {
			visit(fn)
		}
		goal := "true"
		clause := "deterministic: only calls of " + strings.Join(dd.Allowed, ", ") + "; no map iteration, channels, goroutines"
		if len(bad) > 0 {
			goal = "false"
			clause += "; found: " + strings.Join(bad, "; ")
		}
		obls = append(obls, &Obl{Name: key + "#deterministic", Func: key, Clause: clause, Goal: goal, G: g, Kind: "discipline", Tags: dd.Tags})
	}
	return obls
}

func (g *gen) runLemma() {
	ct := g.ct
	g.w.curUnit = g.unit
	g.ensureSort(sErr)
	if sp := g.w.pkgs[ct.Pkg]; sp != nil {
		g.w.lemmaPkg = sp.Pkg
	}
	for _, gh := range g.unit.Ghosts {
		g.ghostComp(gh)
	}
	e := &env{g: g, vars: map[string]T{}, state: map[string]string{}, useInit: true}
	for _, p := range ct.Params {
		s := g.sortOfSpecType(p.Type)
		n := g.declConst("l."+p.Name, s)
		t := T{S: n, Sort: s, Signed: specTypeSigned(p.Type)}
		if s == sSlice {
			g.assume(g.wfSlice(n))
			t.GoT = byteSliceType
		}
		e.vars[p.Name] = t
		g.params[p.Name] = t
	}
	for _, ax := range g.unit.Axioms {
		g.assume(g.specBool(e, ax))
	}
	for _, rq := range ct.Requires {
		g.assume(g.specBool(e, rq))
	}
	o := g.addObl("presat", "pre-sat", "requires satisfiable", "false", 0)
	o.Cover = true
	o.Name = ct.FullKey + "#pre-sat"
	for i, en := range ct.Ensures {
		goal := g.specBool(e, en)
		o := g.addObl("lemma", fmt.Sprintf("ensures[%d]", i+1), en.Text, goal, 0)
		o.Name = fmt.Sprintf("%s#ensures[%d]", ct.FullKey, i+1)
	}
}

// ---------------------------------------------------------------- running obligations

type OblResult struct {
	O      *Obl
	R      *SolveResult
	Status string // discharged, failed(sat), undecided, cover-ok, cover-vacuous, cover-unknown, known
}

// quickUnlocked: when non-nil, the set of locked obligation names (others get a short timeout)
var quickUnlocked map[string]bool

func runObls(obls []*Obl, workdir string, timeoutS, seed int, agree bool, par int) []*OblResult {
	res := make([]*OblResult, len(obls))
	var wg sync.WaitGroup
	sem := make(chan struct{}, par)
	for i, o := range obls {
		wg.Add(1)
		go func(i int, o *Obl) {
			defer wg.Done()
			sem <- struct{}{}
			defer func() { <-sem }()
			q := o.query("", true)
			to := timeoutS
			if o.Cover {
				to = min(timeoutS, 5)
			} else if quickUnlocked != nil && !quickUnlocked[o.Name] {
				to = min(timeoutS, 8) // not locked: attempted, never a violation
			}
			r := solve(workdir, o.Name, q, to, seed, agree && !o.Cover)
			or := &OblResult{O: o, R: r}
			switch {
			case o.Cover && r.Status == "sat":
				or.Status = "cover-ok"
			case o.Cover && r.Status == "unsat":
				or.Status = "cover-vacuous"
			case o.Cover:
				or.Status = "cover-unknown"
			case r.Status == "unsat":
				or.Status = "discharged"
			case r.Status == "sat":
				or.Status = "failed"
			case r.Status == "disagree":
				or.Status = "disagree"
			default:
				or.Status = "undecided"
			}
			// known-finding carve-out: re-run with the excluded inputs removed
			if (or.Status == "failed" || or.Status == "undecided") && o.Known != nil {
				q2 := o.query(not(o.KnownEx), false)
				r2 := solve(workdir, o.Name+".carved", q2, timeoutS, seed, false)
				if r2.Status == "unsat" {
					or.Status = "known"
				}
			}
			res[i] = or
		}(i, o)
	}
	wg.Wait()
	return res
}

// ---------------------------------------------------------------- lock file

type LockEntry struct {
	Solver string  `json:"solver"`
	Time   float64 `json:"time_s"`
	Kind   string  `json:"kind"`
}

type LockFile map[string]map[string]LockEntry // property -> obligation -> entry

func loadLock() LockFile {
	lf := LockFile{}
	data, err := os.ReadFile(filepath.Join(verifDir, "obligations.lock.json"))
	if err == nil {
		json.Unmarshal(data, &lf)
	}
	return lf
}

func saveLock(lf LockFile) {
	data, _ := json.MarshalIndent(lf, "", " ")
	os.WriteFile(filepath.Join(verifDir, "obligations.lock.json"), append(data, '\n'), 0o644)
}

// ---------------------------------------------------------------- main

func main() {
	if len(os.Args) < 2 {
		fatal("usage: govc check|lock|dump ...")
	}
	switch os.Args[1] {
	case "check":
		fs := flag.NewFlagSet("check", flag.ExitOnError)
		repo := fs.String("repo", "/repo", "repository root")
		tier := fs.String("tier", "quick", "quick|thorough")
		lock := fs.Bool("lock", false, "rewrite the lock entries of this property from this run")
		only := fs.String("only", "", "restrict to contracts whose key contains this")
		verbose := fs.Bool("v", false, "verbose")
		fs.Parse(os.Args[2:])
		if fs.NArg() < 1 {
			fatal("usage: govc check [flags] <property>")
		}
		defer func() {
			if r := recover(); r != nil {
				// an engine fault must never look like a pass
				fmt.Fprintf(os.Stderr, "govc: ENGINE ERROR: internal fault while checking %s: %v\n%s\n", fs.Arg(0), r, debug.Stack())
				os.Exit(2)
			}
		}()
		os.Exit(cmdCheck(*repo, fs.Arg(0), *tier, *lock, *only, *verbose))
	case "dump":
		fs := flag.NewFlagSet("dump", flag.ExitOnError)
		repo := fs.String("repo", "/repo", "repository root")
		fs.Parse(os.Args[2:])
		cmdDump(*repo, fs.Arg(0))
	default:
		fatal("unknown command %s", os.Args[1])
	}
}

func dirsForProp(repo, prop string) []string {
	// cheap pre-parse: a directory is needed if one of its contract files mentions the tag
	var out []string
	add := func(d string) {
		for _, x := range out {
			if x == d {
				return
			}
		}
		out = append(out, d)
	}
	for _, d := range contractDirs(repo) {
		files, _ := filepath.Glob(filepath.Join(repo, d, "zz_contracts*_verif.go"))
		for _, f := range files {
			data, _ := os.ReadFile(f)
			if prop == "" || strings.Contains(string(data), prop) {
				add(d)
			}
			// "//@ load-for C19: internal/db/description, internal/db/id": extra packages whose bodies a
			// call-graph discipline of that property needs
			for _, l := range strings.Split(string(data), "\n") {
				l = strings.TrimSpace(l)
				if strings.HasPrefix(l, "//@ load-for ") {
					rest := strings.TrimPrefix(l, "//@ load-for ")
					k := strings.Index(rest, ":")
					if k > 0 && (prop == "" || strings.TrimSpace(rest[:k]) == prop) {
						for _, x := range strings.Split(rest[k+1:], ",") {
							if x = strings.TrimSpace(x); x != "" {
								add(x)
							}
						}
					}
				}
			}
		}
	}
	return out
}

func cmdDump(repo, key string) {
	w, err := LoadWorld(repo, dirsForProp(repo, ""))
	if err != nil {
		fatal("%v", err)
	}
	gr := generate(w, "", key)
	for _, e := range gr.errors {
		fmt.Fprintln(os.Stderr, "ERROR", e)
	}
	dir := filepath.Join(verifDir, ".work", "dump")
	os.MkdirAll(dir, 0o755)
	for _, o := range gr.obls {
		f := filepath.Join(dir, safeName.ReplaceAllString(o.Name, "_")+".smt2")
		os.WriteFile(f, []byte(o.query("", true)), 0o644)
		fmt.Println(o.Name, "->", f)
		if o.Known != nil {
			os.WriteFile(strings.TrimSuffix(f, ".smt2")+".carved.smt2", []byte(o.query(not(o.KnownEx), false)), 0o644)
		}
	}
	for _, g := range gr.gens {
		for _, wmsg := range g.warnings {
			fmt.Fprintln(os.Stderr, "WARN", g.fnKey(), wmsg)
		}
		for _, u := range g.unmod {
			fmt.Fprintln(os.Stderr, "UNMODELLED", g.fnKey(), u)
		}
		for _, u := range g.uncontracted {
			fmt.Fprintln(os.Stderr, "UNCONTRACTED-CALL", g.fnKey(), u)
		}
	}
}

func envInt(name string, def int) int {
	if v := os.Getenv(name); v != "" {
		var n int
		if _, err := fmt.Sscanf(v, "%d", &n); err == nil {
			return n
		}
	}
	return def
}

var startTime = time.Now()


// sortDisciplineObl: in every function of the package, a comparison closure handed to sort.Slice or
// sort.SliceStable that captures slices captures the slice being sorted.
func sortDisciplineObl(w *World, u *Unit, sp *ssa.Package, tags []string, n int) *Obl {
	var offenders []string
	sites := 0
	g0 := &gen{w: w, declared: map[string]bool{}}
	isSlice := func(t types.Type) bool {
		_, ok := t.Underlying().(*types.Slice)
		return ok
	}
	// the variable (Alloc) or value a slice operand comes from
	source := func(v ssa.Value) ssa.Value {
		for {
			switch x := v.(type) {
			case *ssa.MakeInterface:
				v = x.X
				continue
			case *ssa.ChangeType:
				v = x.X
				continue
			case *ssa.UnOp:
				if x.Op == token.MUL {
					return x.X
				}
			}
			return v
		}
	}
	seen := map[*ssa.Function]bool{}
	var visit func(fn *ssa.Function)
	visit = func(fn *ssa.Function) {
		if fn == nil || seen[fn] {
			return
		}
		seen[fn] = true
		g0.fn = fn
		for _, b := range fn.Blocks {
			for _, in := range b.Instrs {
				call, ok := in.(ssa.CallInstruction)
				if !ok {
					continue
				}
				c := call.Common()
				full, _ := g0.calleeName(c)
				if (full != "sort.Slice" && full != "sort.SliceStable") || len(c.Args) != 2 {
					continue
				}
				mc, ok := c.Args[1].(*ssa.MakeClosure)
				if !ok {
					continue
				}
				sites++
				sorted := source(c.Args[0])
				captured, match := 0, false
				for _, bnd := range mc.Bindings {
					t := bnd.Type()
					if p, ok := t.Underlying().(*types.Pointer); ok && isSlice(p.Elem()) {
						captured++
						if bnd == sorted {
							match = true
						}
					} else if isSlice(t) {
						captured++
						if bnd == sorted || source(bnd) == sorted {
							match = true
						}
					}
				}
				if captured > 0 && !match {
					offenders = append(offenders, fmt.Sprintf("%s: the comparison closure of the sort at %s does not index the slice that is sorted", w.keyOf(fn), w.pos(in.Pos())))
				}
			}
		}
		for _, an := range fn.AnonFuncs {
			visit(an)
		}
	}
	for _, m := range sp.Members {
		switch x := m.(type) {
		case *ssa.Function:
			visit(x)
		case *ssa.Type:
			for _, t := range []types.Type{x.Type(), types.NewPointer(x.Type())} {
				ms := w.prog.MethodSets.MethodSet(t)
				for i := 0; i < ms.Len(); i++ {
					if fn := w.prog.MethodValue(ms.At(i)); fn != nil && fn.Pkg == sp {
						visit(fn)
					}
				}
			}
		}
	}
	g0.fn, g0.unit = nil, u
	sort.Strings(offenders)
	goal := "true"
	clause := fmt.Sprintf("the comparison closures of the %d sort.Slice / sort.SliceStable calls of the package index the slice being sorted", sites)
	if len(offenders) > 0 {
		goal = "false"
		clause += "; offenders: " + strings.Join(offenders, "; ")
	}
	return &Obl{Name: fmt.Sprintf("%s#sort-less-over-sorted#%d", u.PkgName, n), Func: u.PkgName, Clause: clause, Goal: goal, G: g0, Kind: "discipline", Tags: tags}
}
