package main

// Functional replay: a counterexample of an ensures-obligation of a strict (functional) unit is
// replayed against the real code: the model's inputs are turned into a Go test (injected with
// go test -overlay), the real function is run, and the violated clause is evaluated by the solver on
// the concrete inputs and the outputs the real code produced.  sat = the real code violates it.

import (
	"encoding/json"
	"fmt"
	"go/types"
	"math"
	"os"
	"os/exec"
	"path/filepath"
	"regexp"
	"strconv"
	"strings"

	"golang.org/x/tools/go/ssa"
)

// parseGetValue parses "((term value) (term value) ...)" into term -> value (both as text).
func parseGetValue(out string) map[string]string {
	m := map[string]string{}
	i := strings.Index(out, "((")
	if i < 0 {
		return m
	}
	s := out[i+1:]
	depth := 0
	start := -1
	for k := 0; k < len(s); k++ {
		switch s[k] {
		case '(':
			if depth == 0 {
				start = k
			}
			depth++
		case ')':
			depth--
			if depth == 0 && start >= 0 {
				pair := s[start+1 : k]
				// split into term and value: the term is the first s-expression
				t, v := splitSexpr(pair)
				m[strings.Join(strings.Fields(t), " ")] = strings.Join(strings.Fields(v), " ")
				start = -1
			}
			if depth < 0 {
				return m
			}
		}
	}
	return m
}

func splitSexpr(s string) (string, string) {
	s = strings.TrimSpace(s)
	if s == "" {
		return "", ""
	}
	if s[0] != '(' {
		k := strings.IndexAny(s, " \n\t")
		if k < 0 {
			return s, ""
		}
		return s[:k], strings.TrimSpace(s[k:])
	}
	depth := 0
	for k := 0; k < len(s); k++ {
		if s[k] == '(' {
			depth++
		} else if s[k] == ')' {
			depth--
			if depth == 0 {
				return s[:k+1], strings.TrimSpace(s[k+1:])
			}
		}
	}
	return s, ""
}

func bvValue(v string) (uint64, bool) {
	v = strings.TrimSpace(v)
	switch {
	case strings.HasPrefix(v, "#x"):
		u, err := strconv.ParseUint(v[2:], 16, 64)
		return u, err == nil
	case strings.HasPrefix(v, "#b"):
		u, err := strconv.ParseUint(v[2:], 2, 64)
		return u, err == nil
	case strings.HasPrefix(v, "(_ bv"):
		var u uint64
		var w int
		if _, err := fmt.Sscanf(v, "(_ bv%d %d)", &u, &w); err == nil {
			return u, true
		}
	}
	return 0, false
}

func bitsOf(v string) (string, bool) {
	v = strings.TrimSpace(v)
	switch {
	case strings.HasPrefix(v, "#b"):
		return v[2:], true
	case strings.HasPrefix(v, "#x"):
		var sb strings.Builder
		for _, c := range v[2:] {
			d, err := strconv.ParseUint(string(c), 16, 8)
			if err != nil {
				return "", false
			}
			fmt.Fprintf(&sb, "%04b", d)
		}
		return sb.String(), true
	}
	return "", false
}

// fpBitsValue: IEEE bit pattern of an SMT floating point value
func fpBitsValue(v string, eb, sb int) (uint64, bool) {
	v = strings.TrimSpace(v)
	total := eb + sb
	switch {
	case strings.HasPrefix(v, "(fp "):
		parts := strings.Fields(strings.TrimSuffix(strings.TrimPrefix(v, "(fp "), ")"))
		if len(parts) != 3 {
			return 0, false
		}
		var bits string
		for _, p := range parts {
			b, ok := bitsOf(p)
			if !ok {
				return 0, false
			}
			bits += b
		}
		if len(bits) != total {
			return 0, false
		}
		u, err := strconv.ParseUint(bits, 2, 64)
		return u, err == nil
	case strings.HasPrefix(v, "(_ +zero"):
		return 0, true
	case strings.HasPrefix(v, "(_ -zero"):
		return uint64(1) << uint(total-1), true
	case strings.HasPrefix(v, "(_ +oo"):
		if total == 64 {
			return math.Float64bits(math.Inf(1)), true
		}
		return uint64(math.Float32bits(float32(math.Inf(1)))), true
	case strings.HasPrefix(v, "(_ -oo"):
		if total == 64 {
			return math.Float64bits(math.Inf(-1)), true
		}
		return uint64(math.Float32bits(float32(math.Inf(-1)))), true
	case strings.HasPrefix(v, "(_ NaN"):
		if total == 64 {
			return math.Float64bits(math.NaN()), true
		}
		return uint64(math.Float32bits(float32(math.NaN()))), true
	}
	return 0, false
}

type replayVal struct {
	Kind  string `json:"kind"` // bytes, uint, int, bool, float64, float32, err
	Bits  uint64 `json:"bits,omitempty"`
	Bytes []byte `json:"bytes,omitempty"`
	Nil   bool   `json:"nil,omitempty"`
	// for byte-slice results: which parameter's backing array they point into (-1 none) and where
	AliasParam int `json:"alias_param"`
	AliasOff   int `json:"alias_off"`
}

var ensuresIdxRe = regexp.MustCompile(`#ensures\[(\d+)\]$`)

func basicKindOf(t types.Type) string {
	t = types.Unalias(t)
	if isErrorType(t) {
		return "err"
	}
	switch u := t.Underlying().(type) {
	case *types.Slice:
		if b, ok := u.Elem().Underlying().(*types.Basic); ok && b.Kind() == types.Uint8 {
			return "bytes"
		}
	case *types.Basic:
		switch {
		case u.Kind() == types.Bool:
			return "bool"
		case u.Kind() == types.Float64:
			return "float64"
		case u.Kind() == types.Float32:
			return "float32"
		case u.Info()&types.IsUnsigned != 0:
			return "uint"
		case u.Info()&types.IsInteger != 0:
			return "int"
		}
	}
	return ""
}

func replayFunctional(w *World, r *OblResult, workdir string) *replayOutcome {
	g := r.O.G
	fn := g.fn
	m := ensuresIdxRe.FindStringSubmatch(r.O.Name)
	if m == nil {
		return &replayOutcome{Outcome: "not-attempted", Note: "only ensures-obligations are replayed (the violated clause must be evaluable on inputs and outputs)"}
	}
	clauseIdx, _ := strconv.Atoi(m[1])
	if fn.Signature.Recv() != nil {
		return &replayOutcome{Outcome: "not-attempted", Note: "methods are not replayed"}
	}
	model := parseGetValue(r.R.Output)
	// look for a small counterexample: byte-slice parameters as short as possible
	var sliceParams []string
	for _, p := range fn.Params {
		if basicKindOf(p.Type()) == "bytes" {
			sliceParams = append(sliceParams, g.params[p.Name()].S)
		}
	}
	if len(sliceParams) > 0 {
		found := false
		for _, bound := range []int64{0, 2, 9, 24} {
			var cs []string
			for _, sp := range sliceParams {
				cs = append(cs, g.idxLe(sx("s.len", sp), g.idxLit(bound)))
			}
			sr := solve(workdir, fmt.Sprintf("replay-min-%d", bound), r.O.query(and(cs...), true), 20, 0, false)
			if sr.Status == "sat" {
				model = parseGetValue(sr.Output)
				found = true
				break
			}
		}
		if !found {
			return &replayOutcome{Outcome: "not-attempted", Note: "no counterexample with byte-slice parameters of at most 24 bytes"}
		}
	}
	// inputs
	var inputs []replayVal
	var goArgs []string
	var decls []string
	for i, p := range fn.Params {
		k := basicKindOf(p.Type())
		t := g.params[p.Name()]
		rv := replayVal{Kind: k, AliasParam: -1}
		name := fmt.Sprintf("a%d", i)
		switch k {
		case "bytes":
			ln, ok := bvValue(model[sx("s.len", t.S)])
			if !ok {
				if iv, err := strconv.Atoi(model[sx("s.len", t.S)]); err == nil {
					ln, ok = uint64(iv), true
				}
			}
			if !ok || ln > 24 {
				return &replayOutcome{Outcome: "not-attempted", Note: fmt.Sprintf("model gives no usable length for %s (%q)", p.Name(), model[sx("s.len", t.S)])}
			}
			for j := uint64(0); j < ln; j++ {
				key := sx("select", sx("select", "HS.bv8@0", sx("s.reg", t.S)), g.idxAdd(sx("s.off", t.S), g.idxLit(int64(j))))
				bv, _ := bvValue(model[strings.Join(strings.Fields(key), " ")])
				rv.Bytes = append(rv.Bytes, byte(bv))
			}
			var bs []string
			for _, b := range rv.Bytes {
				bs = append(bs, fmt.Sprintf("0x%02x", b))
			}
			decls = append(decls, fmt.Sprintf("%s := []byte{%s}", name, strings.Join(bs, ", ")))
		case "uint", "int":
			u, ok := bvValue(model[t.S])
			if !ok {
				return &replayOutcome{Outcome: "not-attempted", Note: "no model value for " + p.Name()}
			}
			rv.Bits = u
			tn := types.TypeString(p.Type(), func(pk *types.Package) string {
				if pk == fn.Pkg.Pkg {
					return ""
				}
				return pk.Name()
			})
			if k == "int" {
				w := bvWidth(t.Sort)
				decls = append(decls, fmt.Sprintf("%s := %s(int%d(uint%d(%d)))", name, tn, w, w, u))
			} else {
				decls = append(decls, fmt.Sprintf("%s := %s(%d)", name, tn, u))
			}
		case "bool":
			rv.Bits = 0
			if model[t.S] == "true" {
				rv.Bits = 1
			}
			decls = append(decls, fmt.Sprintf("%s := %v", name, rv.Bits == 1))
		case "float64":
			u, ok := fpBitsValue(model[t.S], 11, 53)
			if !ok {
				return &replayOutcome{Outcome: "not-attempted", Note: "cannot read float model value " + model[t.S]}
			}
			rv.Bits = u
			decls = append(decls, fmt.Sprintf("%s := math.Float64frombits(%d)", name, u))
		case "float32":
			u, ok := fpBitsValue(model[t.S], 8, 24)
			if !ok {
				return &replayOutcome{Outcome: "not-attempted", Note: "cannot read float model value " + model[t.S]}
			}
			rv.Bits = u
			decls = append(decls, fmt.Sprintf("%s := math.Float32frombits(%d)", name, u))
		default:
			return &replayOutcome{Outcome: "not-attempted", Note: "parameter type " + p.Type().String() + " cannot be replayed"}
		}
		inputs = append(inputs, rv)
		goArgs = append(goArgs, name)
	}
	res := fn.Signature.Results()
	var resKinds []string
	for i := 0; i < res.Len(); i++ {
		k := basicKindOf(res.At(i).Type())
		if k == "" {
			return &replayOutcome{Outcome: "not-attempted", Note: "result type " + res.At(i).Type().String() + " cannot be replayed"}
		}
		resKinds = append(resKinds, k)
	}
	// the Go test
	var sb strings.Builder
	fmt.Fprintf(&sb, "package %s\n\nimport (\n\t\"encoding/json\"\n\t\"math\"\n\t\"os\"\n\t\"testing\"\n\t\"unsafe\"\n)\n\nvar _ = math.Pi\nvar _ unsafe.Pointer\n\n", fn.Pkg.Pkg.Name())
	sb.WriteString("type govcVal struct {\n\tKind string `json:\"kind\"`\n\tBits uint64 `json:\"bits,omitempty\"`\n\tBytes []byte `json:\"bytes,omitempty\"`\n\tNil bool `json:\"nil,omitempty\"`\n\tAliasParam int `json:\"alias_param\"`\n\tAliasOff int `json:\"alias_off\"`\n}\n\n")
	sb.WriteString("func govcAlias(r []byte, ps ...[]byte) (int, int) {\n\tif cap(r) == 0 {\n\t\treturn -1, 0\n\t}\n\trp := uintptr(unsafe.Pointer(unsafe.SliceData(r)))\n\tfor i, p := range ps {\n\t\tif cap(p) == 0 {\n\t\t\tcontinue\n\t\t}\n\t\tpp := uintptr(unsafe.Pointer(unsafe.SliceData(p)))\n\t\tif rp >= pp && rp <= pp+uintptr(len(p)) {\n\t\t\treturn i, int(rp - pp)\n\t\t}\n\t}\n\treturn -1, 0\n}\n\n")
	sb.WriteString("func TestGovcReplay(t *testing.T) {\n")
	for _, d := range decls {
		sb.WriteString("\t" + d + "\n")
	}
	var rn []string
	for i := range resKinds {
		rn = append(rn, fmt.Sprintf("r%d", i))
	}
	if len(rn) > 0 {
		fmt.Fprintf(&sb, "\t%s := %s(%s)\n", strings.Join(rn, ", "), fn.Name(), strings.Join(goArgs, ", "))
	} else {
		fmt.Fprintf(&sb, "\t%s(%s)\n", fn.Name(), strings.Join(goArgs, ", "))
	}
	var byteParams []string
	for i, in := range inputs {
		if in.Kind == "bytes" {
			byteParams = append(byteParams, fmt.Sprintf("a%d", i))
		} else {
			byteParams = append(byteParams, "nil")
		}
	}
	sb.WriteString("\tvar out []govcVal\n")
	for i, k := range resKinds {
		switch k {
		case "bytes":
			fmt.Fprintf(&sb, "\t{ p, o := govcAlias(r%d, %s); out = append(out, govcVal{Kind: \"bytes\", Bytes: append([]byte{}, r%d...), Nil: r%d == nil, AliasParam: p, AliasOff: o}) }\n", i, strings.Join(byteParams, ", "), i, i)
		case "uint", "int":
			fmt.Fprintf(&sb, "\tout = append(out, govcVal{Kind: %q, Bits: uint64(r%d), AliasParam: -1})\n", k, i)
		case "bool":
			fmt.Fprintf(&sb, "\t{ var b uint64; if r%d { b = 1 }; out = append(out, govcVal{Kind: \"bool\", Bits: b, AliasParam: -1}) }\n", i)
		case "float64":
			fmt.Fprintf(&sb, "\tout = append(out, govcVal{Kind: \"float64\", Bits: math.Float64bits(r%d), AliasParam: -1})\n", i)
		case "float32":
			fmt.Fprintf(&sb, "\tout = append(out, govcVal{Kind: \"float32\", Bits: uint64(math.Float32bits(r%d)), AliasParam: -1})\n", i)
		case "err":
			fmt.Fprintf(&sb, "\tout = append(out, govcVal{Kind: \"err\", Nil: r%d == nil, AliasParam: -1})\n", i)
		}
	}
	sb.WriteString("\tdata, _ := json.Marshal(out)\n\tos.WriteFile(os.Getenv(\"GOVC_REPLAY_OUT\"), data, 0o644)\n}\n")
	testSrc := sb.String()
	testFile := filepath.Join(workdir, "zz_govc_replay_test.go")
	os.WriteFile(testFile, []byte(testSrc), 0o644)
	pkgDir := filepath.Dir(w.fset.Position(fn.Pos()).Filename)
	ov := mergedOverlay(workdir, map[string]string{filepath.Join(pkgDir, "zz_govc_replay_test.go"): testFile})
	outFile := filepath.Join(workdir, "replay-out.json")
	os.Remove(outFile)
	cmd := exec.Command("go", "test", "-overlay", ov, "-vet=off", "-count=1", "-timeout", "60s", "-run", "^TestGovcReplay$", ".")
	cmd.Dir = pkgDir
	cmd.Env = append(os.Environ(), "GOVC_REPLAY_OUT="+outFile, "GOFLAGS=-mod=mod", "GOPROXY=off")
	b, _ := cmd.CombinedOutput()
	inJSON, _ := json.Marshal(inputs)
	ro := &replayOutcome{Test: testSrc, Inputs: string(inJSON)}
	data, err := os.ReadFile(outFile)
	if err != nil {
		// the real code panicked or the test did not build
		ro.Output = truncate(string(b), 3000)
		if strings.Contains(string(b), "panic:") {
			ro.Outcome = "reproduced"
			ro.Note = "the real function panics on the model's input"
		} else {
			ro.Outcome = "not-attempted"
			ro.Note = "replay test did not produce a result"
		}
		return ro
	}
	var outs []replayVal
	json.Unmarshal(data, &outs)
	ro.Output = string(data)
	// evaluate the clause on the concrete values
	verdict, q := evalClauseConcrete(w, fn, g.ct, clauseIdx, inputs, outs, workdir)
	switch verdict {
	case "sat":
		ro.Outcome = "reproduced"
		ro.Note = "the clause is false on these inputs and the outputs the real code produced"
	case "unsat":
		ro.Outcome = "not-reproduced"
		ro.Note = "the real code satisfies the clause on the model's inputs (engine/contract gap)"
	default:
		ro.Outcome = "not-attempted"
		ro.Note = "concrete evaluation of the clause was inconclusive: " + verdict + " " + q
	}
	return ro
}

// evalClauseConcrete builds: declarations of parameters and results, assertions fixing them to the
// concrete values, and the negated clause.
func evalClauseConcrete(w *World, fn *ssa.Function, ct *Contract, clauseIdx int, ins, outs []replayVal, workdir string) (string, string) {
	if clauseIdx < 1 || clauseIdx > len(ct.Ensures) {
		return "error", "no such clause"
	}
	g := newGen(w, fn, ct)
	g.ensureSort(sErr)
	g.assume(sx(">=", g.nalloc(), "1"))
	h := g.heapSlice(bvSort(8))
	pre := h + "@0"
	nextReg := 1
	paramReg := map[int]int{}
	fix := func(t T, v replayVal, reg int) {
		switch v.Kind {
		case "bytes":
			if v.Nil && len(v.Bytes) == 0 && reg == 0 {
				g.assume(sx("=", t.S, g.zeroOfSort(sSlice, nil)))
				return
			}
		case "uint", "int":
			g.assume(sx("=", t.S, bvLit(v.Bits, bvWidth(t.Sort))))
		case "bool":
			if v.Bits == 1 {
				g.assume(t.S)
			} else {
				g.assume(not(t.S))
			}
		case "float64":
			g.assume(sx("=", t.S, sx("(_ to_fp 11 53)", bvLit(v.Bits, 64))))
		case "float32":
			g.assume(sx("=", t.S, sx("(_ to_fp 8 24)", bvLit(v.Bits, 32))))
		case "err":
			if v.Nil {
				g.assume(sx("=", t.S, "errnil"))
			} else {
				g.assume(not(sx("=", t.S, "errnil")))
			}
		}
	}
	var content []string // assertions about the final heap
	setBytes := func(heap string, reg int, off int, bs []byte) {
		for j, b := range bs {
			content = append(content, sx("=", sx("select", sx("select", heap, fmt.Sprint(reg)), g.idxLit(int64(off+j))), bvLit(uint64(b), 8)))
		}
	}
	for i, p := range fn.Params {
		t := g.freshOfType(p.Type(), "p."+mangle(p.Name()))
		g.vals[p] = t
		g.params[p.Name()] = t
		if ins[i].Kind == "bytes" {
			reg := nextReg
			nextReg++
			paramReg[i] = reg
			g.assume(sx("=", t.S, sx("mk-slice", fmt.Sprint(reg), g.idxLit(0), g.idxLit(int64(len(ins[i].Bytes))))))
			setBytes(pre, reg, 0, ins[i].Bytes)
		} else {
			fix(t, ins[i], 0)
		}
	}
	g.assume(sx("=", g.nalloc(), fmt.Sprint(nextReg)))
	post := g.declConst("HS.post", g.compSort[h])
	// the final heap agrees with the initial one on the parameters' regions (functions under replay do not write their inputs)
	for i := range fn.Params {
		if ins[i].Kind == "bytes" {
			setBytes(post, paramReg[i], 0, ins[i].Bytes)
		}
	}
	var resT []T
	res := fn.Signature.Results()
	for i := 0; i < res.Len(); i++ {
		t := g.freshOfType(res.At(i).Type(), fmt.Sprintf("r.%d", i))
		resT = append(resT, t)
		if i >= len(outs) {
			continue
		}
		v := outs[i]
		if v.Kind == "bytes" {
			switch {
			case v.Nil:
				g.assume(sx("=", t.S, g.zeroOfSort(sSlice, nil)))
			case v.AliasParam >= 0:
				reg := paramReg[v.AliasParam]
				g.assume(sx("=", t.S, sx("mk-slice", fmt.Sprint(reg), g.idxLit(int64(v.AliasOff)), g.idxLit(int64(len(v.Bytes))))))
				setBytes(post, reg, v.AliasOff, v.Bytes)
			default:
				reg := nextReg
				nextReg++
				g.assume(sx("=", t.S, sx("mk-slice", fmt.Sprint(reg), g.idxLit(0), g.idxLit(int64(len(v.Bytes))))))
				setBytes(post, reg, 0, v.Bytes)
			}
		} else {
			fix(t, v, 0)
		}
	}
	for _, c := range content {
		g.assume(c)
	}
	g.results = g.resultNames()
	st := map[string]string{}
	for _, c := range g.compList {
		st[c] = c + "@0"
	}
	st[h] = post
	st["nalloc"] = g.define("nalloc.post", sInt, fmt.Sprint(nextReg))
	rs := &retSite{reach: "true", vals: resT, state: st, idx: 1}
	e := g.retEnv(rs)
	goal := g.specBool(e, ct.Ensures[clauseIdx-1])
	o := &Obl{Name: "replay-eval", Goal: goal, Prelude: len(g.body), G: g}
	r := solve(workdir, "replay-eval", o.query("", false), 20, 0, false)
	return r.Status, r.File
}
