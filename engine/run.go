package main

import (
	"fmt"
	"go/token"
	"go/types"
	"sort"
	"strings"

	"golang.org/x/tools/go/ssa"
)

// newGen prepares a generator for fn under contract ct.
func newGen(w *World, fn *ssa.Function, ct *Contract) *gen {
	g := &gen{w: w, fn: fn, ct: ct, unit: ct.Unit,
		declared: map[string]bool{}, vals: map[ssa.Value]T{}, tuples: map[ssa.Value][]T{},
		compSort: map[string]string{}, compDef: map[string]string{},
		reach: map[*ssa.BasicBlock]string{}, exitReach: map[*ssa.BasicBlock]string{},
		exitState: map[*ssa.BasicBlock]map[string]string{}, edgeCond: map[[2]*ssa.BasicBlock]string{}, edgeTaken: map[[2]*ssa.BasicBlock]string{},
		cur: map[string]string{}, params: map[string]T{}, stable: map[*ssa.Alloc]bool{},
		allocAddr: map[*ssa.Alloc]string{}, callOrd: map[string]int{}, debugVars: map[*ssa.BasicBlock]map[string]T{},
		loopOrd: map[*ssa.BasicBlock]int{}, closures: map[ssa.Value]*ssa.MakeClosure{}, faTag: map[string]int{}}
	g.idx = bvSort(64)
	if ct.Unit.IntMath {
		g.idx = sInt
	}
	return g
}

func (g *gen) addObl(kind, suffix, clause, goal string, pos token.Pos) *Obl {
	o := &Obl{Name: g.fnKey() + "#" + suffix, Func: g.fnKey(), Clause: clause, Goal: goal, Prelude: len(g.body), G: g, Pos: pos, Kind: kind}
	if g.ct != nil {
		o.Tags = g.ct.Tags
	}
	g.obls = append(g.obls, o)
	return o
}

func (g *gen) fnKey() string {
	if g.fn == nil {
		return g.ct.FullKey
	}
	return g.w.keyOf(g.fn)
}

// oblige adds an obligation that cond holds whenever the current point is reached.
func (g *gen) oblige(kind, suffix, clause, cond string, pos token.Pos) {
	g.addObl(kind, suffix, clause, implies(g.curReach, cond), pos)
}

// ---------------------------------------------------------------- CFG helpers

type cfgInfo struct {
	order   []*ssa.BasicBlock
	back    map[[2]*ssa.BasicBlock]bool
	headers map[*ssa.BasicBlock][]*ssa.BasicBlock // header -> back-edge sources
	body    map[*ssa.BasicBlock]map[*ssa.BasicBlock]bool
}

func analyseCFG(fn *ssa.Function) *cfgInfo {
	ci := &cfgInfo{back: map[[2]*ssa.BasicBlock]bool{}, headers: map[*ssa.BasicBlock][]*ssa.BasicBlock{}, body: map[*ssa.BasicBlock]map[*ssa.BasicBlock]bool{}}
	for _, b := range fn.Blocks {
		for _, s := range b.Succs {
			if s.Dominates(b) {
				ci.back[[2]*ssa.BasicBlock{b, s}] = true
				ci.headers[s] = append(ci.headers[s], b)
			}
		}
	}
	// natural loop bodies
	for h, srcs := range ci.headers {
		body := map[*ssa.BasicBlock]bool{h: true}
		var stack []*ssa.BasicBlock
		for _, s := range srcs {
			if !body[s] {
				body[s] = true
				stack = append(stack, s)
			}
		}
		for len(stack) > 0 {
			b := stack[len(stack)-1]
			stack = stack[:len(stack)-1]
			for _, p := range b.Preds {
				if !body[p] {
					body[p] = true
					stack = append(stack, p)
				}
			}
		}
		ci.body[h] = body
	}
	// topological order ignoring back edges (Kahn)
	indeg := map[*ssa.BasicBlock]int{}
	for _, b := range fn.Blocks {
		for _, s := range b.Succs {
			if !ci.back[[2]*ssa.BasicBlock{b, s}] {
				indeg[s]++
			}
		}
	}
	var q []*ssa.BasicBlock
	for _, b := range fn.Blocks {
		if indeg[b] == 0 && (b == fn.Blocks[0]) {
			q = append(q, b)
		}
	}
	seen := map[*ssa.BasicBlock]bool{}
	for len(q) > 0 {
		// pick the lowest index for determinism
		sort.Slice(q, func(i, j int) bool { return q[i].Index < q[j].Index })
		b := q[0]
		q = q[1:]
		if seen[b] {
			continue
		}
		seen[b] = true
		ci.order = append(ci.order, b)
		for _, s := range b.Succs {
			if ci.back[[2]*ssa.BasicBlock{b, s}] {
				continue
			}
			indeg[s]--
			if indeg[s] == 0 {
				q = append(q, s)
			}
		}
	}
	return ci
}

// loop ordinals: headers sorted by the source position of their first instruction with a position
func (g *gen) numberLoops(ci *cfgInfo) {
	type hp struct {
		h   *ssa.BasicBlock
		pos token.Pos
	}
	var hs []hp
	for h := range ci.headers {
		p := token.NoPos
		// position of the loop = smallest position of any instruction in the header or its body
		for b := range ci.body[h] {
			for _, in := range b.Instrs {
				if ip := in.Pos(); ip != token.NoPos && (p == token.NoPos || ip < p) {
					p = ip
				}
			}
		}
		hs = append(hs, hp{h, p})
	}
	sort.Slice(hs, func(i, j int) bool {
		if hs[i].pos != hs[j].pos {
			return hs[i].pos < hs[j].pos
		}
		return hs[i].h.Index < hs[j].h.Index
	})
	for i, x := range hs {
		g.loopOrd[x.h] = i + 1
	}
}

// ---------------------------------------------------------------- escape analysis for local allocations

func (g *gen) computeStable() {
	for _, b := range g.fn.Blocks {
		for _, in := range b.Instrs {
			if a, ok := in.(*ssa.Alloc); ok {
				g.stable[a] = g.addrStable(a, map[ssa.Value]bool{})
			}
		}
	}
}

// addrStable: the address v is only used for loads, stores (as address), field/index addressing
// and read-only slicing handed to append/len/copy-src; closures may capture it if they only load.
func (g *gen) addrStable(v ssa.Value, seen map[ssa.Value]bool) bool {
	if seen[v] {
		return true
	}
	seen[v] = true
	refs := v.Referrers()
	if refs == nil {
		return false
	}
	for _, r := range *refs {
		switch x := r.(type) {
		case *ssa.UnOp:
			if x.Op != token.MUL {
				return false
			}
		case *ssa.Store:
			if x.Val == v {
				return false
			}
		case *ssa.FieldAddr:
			if !g.addrStable(x, seen) {
				return false
			}
		case *ssa.IndexAddr:
			if x.X != v || !g.addrStable(x, seen) {
				return false
			}
		case *ssa.Slice:
			// the slice value: allowed uses are builtin append (as tail), len, and range/index reads
			if !g.sliceReadOnly(x, seen) {
				return false
			}
		case *ssa.DebugRef:
		case *ssa.MakeClosure:
			// find which free variable it binds
			fn := x.Fn.(*ssa.Function)
			for i, bnd := range x.Bindings {
				if bnd == v {
					if !g.freeVarReadOnly(fn.FreeVars[i], map[ssa.Value]bool{}) {
						return false
					}
				}
			}
		default:
			return false
		}
	}
	return true
}

func (g *gen) freeVarReadOnly(v ssa.Value, seen map[ssa.Value]bool) bool {
	if seen[v] {
		return true
	}
	seen[v] = true
	refs := v.Referrers()
	if refs == nil {
		return true
	}
	for _, r := range *refs {
		switch x := r.(type) {
		case *ssa.UnOp:
			if x.Op != token.MUL {
				return false
			}
		case *ssa.DebugRef:
		case *ssa.FieldAddr:
			if !g.freeVarReadOnly(x, seen) {
				return false
			}
		case *ssa.MakeClosure:
			fn := x.Fn.(*ssa.Function)
			for i, bnd := range x.Bindings {
				if bnd == v && !g.freeVarReadOnly(fn.FreeVars[i], seen) {
					return false
				}
			}
		default:
			return false
		}
	}
	return true
}

func (g *gen) sliceReadOnly(s *ssa.Slice, seen map[ssa.Value]bool) bool {
	refs := s.Referrers()
	if refs == nil {
		return true
	}
	for _, r := range *refs {
		switch x := r.(type) {
		case *ssa.Call:
			if b, ok := x.Call.Value.(*ssa.Builtin); ok {
				switch b.Name() {
				case "append":
					if len(x.Call.Args) == 2 && x.Call.Args[1] == ssa.Value(s) && x.Call.Args[0] != ssa.Value(s) {
						continue
					}
				case "len", "cap":
					continue
				}
			}
			return false
		case *ssa.DebugRef:
		case *ssa.IndexAddr:
			if !g.addrStable(x, seen) {
				return false
			}
		default:
			return false
		}
	}
	return true
}

// ---------------------------------------------------------------- driver

func (g *gen) run() {
	fn := g.fn
	g.w.curUnit = g.unit
	ci := analyseCFG(fn)
	g.ci = ci
	g.numberLoops(ci)
	g.numberCalls()
	g.computeStable()
	g.ensureSort(sErr)

	// allocation counter and parameters
	g.assume(sx(">=", g.nalloc(), "1"))
	var sliceParams []T
	for _, p := range fn.Params {
		t := g.freshOfType(p.Type(), "p."+mangle(p.Name()))
		g.vals[p] = t
		g.params[p.Name()] = t
		switch t.Sort {
		case sSlice:
			g.assume(sx("<", sx("s.reg", t.S), g.nalloc()))
			sliceParams = append(sliceParams, t)
		case sPtr:
			g.assume(and(sx("<=", "0", t.S), sx("<", t.S, g.nalloc())))
		}
	}
	// A3: distinct slice parameters do not alias
	for i := range sliceParams {
		for j := i + 1; j < len(sliceParams); j++ {
			a, b := sliceParams[i].S, sliceParams[j].S
			g.assume(or(sx("=", sx("s.reg", a), "0"), sx("=", sx("s.reg", b), "0"), not(sx("=", sx("s.reg", a), sx("s.reg", b)))))
		}
	}
	for _, fv := range fn.FreeVars {
		t := g.freshOfType(fv.Type(), "fv."+mangle(fv.Name()))
		g.vals[fv] = t
		g.params[fv.Name()] = t
	}
	// ghost components exist from the start
	for _, gh := range g.unit.Ghosts {
		g.ghostComp(gh)
	}
	// result names
	g.results = g.resultNames()

	// unit axioms and requires
	env0 := g.entryEnv()
	env0.assuming = true
	for _, ax := range g.unit.Axioms {
		g.assume(g.specBool(env0, ax))
	}
	for _, rq := range g.ct.Requires {
		g.assume(g.specBool(env0, rq))
	}
	g.addObl("presat", "pre-sat", "requires satisfiable", "false", fn.Pos()).Cover = true

	for _, b := range ci.order {
		g.doBlock(ci, b)
	}
	g.disciplines()
	g.finish()
}

func (g *gen) resultNames() []string {
	sig := g.fn.Signature
	var names []string
	for i := 0; i < sig.Results().Len(); i++ {
		n := sig.Results().At(i).Name()
		if i < len(g.ct.Results) {
			n = g.ct.Results[i]
		}
		if n == "" || n == "_" {
			n = fmt.Sprintf("r%d", i)
		}
		names = append(names, n)
	}
	return names
}

func (g *gen) entryEnv() *env {
	e := &env{g: g, vars: map[string]T{}, state: map[string]string{}, old: nil}
	for k, v := range g.params {
		e.vars[k] = v
	}
	for _, c := range g.compList {
		e.state[c] = c + "@0"
	}
	e.useInit = true
	return e
}

func (g *gen) mergedEntry(ci *cfgInfo, b *ssa.BasicBlock) (reach string, conds []string, preds []*ssa.BasicBlock) {
	for _, p := range b.Preds {
		if ci.back[[2]*ssa.BasicBlock{p, b}] {
			continue
		}
		er, ok := g.exitReach[p]
		if !ok {
			continue // unreachable predecessor (not in order)
		}
		c := and(er, g.edgeCond[[2]*ssa.BasicBlock{p, b}])
		cn := g.define(fmt.Sprintf("e%d_%d", p.Index, b.Index), sBool, c)
		g.edgeTaken[[2]*ssa.BasicBlock{p, b}] = cn
		conds = append(conds, cn)
		preds = append(preds, p)
	}
	if b == g.fn.Blocks[0] {
		return "true", nil, nil
	}
	return or(conds...), conds, preds
}

// viaLoopExit: a term that is true when block b was reached through the exit edge of loop header h
// (the edge from h to a block outside the loop's body) and through no later early exit of that loop.
func (g *gen) viaLoopExit(h, b *ssa.BasicBlock, memo map[*ssa.BasicBlock]string) string {
	if t, ok := memo[b]; ok {
		return t
	}
	memo[b] = "false"
	if g.ci.body[h][b] || b == g.fn.Blocks[0] {
		return "false"
	}
	var alts []string
	for _, p := range b.Preds {
		cn, ok := g.edgeTaken[[2]*ssa.BasicBlock{p, b}]
		if !ok {
			continue
		}
		switch {
		case p == h:
			alts = append(alts, cn)
		case g.ci.body[h][p]:
			// early exit
		default:
			alts = append(alts, and(cn, g.viaLoopExit(h, p, memo)))
		}
	}
	t := or(alts...)
	memo[b] = t
	return t
}

func (g *gen) mergeStates(conds []string, preds []*ssa.BasicBlock) map[string]string {
	st := map[string]string{}
	if len(preds) == 0 {
		return st
	}
	for _, c := range g.compList {
		vals := make([]string, len(preds))
		same := true
		for i, p := range preds {
			vals[i] = g.stateGet(g.exitState[p], c)
			if vals[i] != vals[0] {
				same = false
			}
		}
		if same {
			st[c] = vals[0]
			continue
		}
		t := vals[len(vals)-1]
		for i := len(vals) - 2; i >= 0; i-- {
			t = sx("ite", conds[i], vals[i], t)
		}
		st[c] = g.define(strings.ReplaceAll(c, "@", "_")+".m", g.compSort[c], t)
	}
	return st
}

func (g *gen) doBlock(ci *cfgInfo, b *ssa.BasicBlock) {
	reach, conds, preds := g.mergedEntry(ci, b)
	g.curBlock = b
	g.cur = g.mergeStates(conds, preds)
	g.curReach = g.define(fmt.Sprintf("reach%d", b.Index), sBool, reach)
	g.reach[b] = g.curReach

	_, isHeader := ci.headers[b]
	// phis
	for _, in := range b.Instrs {
		phi, ok := in.(*ssa.Phi)
		if !ok {
			break
		}
		if isHeader {
			continue // handled below
		}
		g.doPhi(phi, b, conds, preds)
	}
	if isHeader {
		g.doLoopHead(ci, b, conds, preds)
	}
	if isHeader {
		// anything whose address leaks inside the loop has leaked for every iteration but the first
		for blk := range ci.body[b] {
			for _, in := range blk.Instrs {
				g.markEscapes(in)
			}
		}
	}
	for _, in := range b.Instrs {
		if _, ok := in.(*ssa.Phi); ok {
			continue
		}
		g.markEscapes(in)
		g.doInstr(ci, in)
	}
	g.exitState[b] = g.cur
	if _, ok := g.exitReach[b]; !ok {
		g.exitReach[b] = g.curReach
	}
}

func (g *gen) doPhi(phi *ssa.Phi, b *ssa.BasicBlock, conds []string, preds []*ssa.BasicBlock) {
	if len(preds) == 0 {
		g.freshVal(phi)
		return
	}
	// phi.Edges[i] corresponds to b.Preds[i]
	idxOf := map[*ssa.BasicBlock]int{}
	for i, p := range b.Preds {
		idxOf[p] = i
	}
	var t string
	for i := len(preds) - 1; i >= 0; i-- {
		v := g.operand(phi.Edges[idxOf[preds[i]]])
		if i == len(preds)-1 {
			t = v.S
		} else {
			t = sx("ite", conds[i], v.S, t)
		}
	}
	g.setVal(phi, t)
}

// operand returns the term of v when used as an operand (pointer-producing address instructions
// are turned into pointer terms).
func (g *gen) operand(v ssa.Value) T {
	switch v.(type) {
	case *ssa.FieldAddr, *ssa.IndexAddr:
		return T{S: g.ptrTerm(v), Sort: sPtr, GoT: v.Type()}
	}
	return g.val(v)
}

// ---------------------------------------------------------------- loops

func (g *gen) loopEnv(h *ssa.BasicBlock, phiVals map[*ssa.Phi]T, st map[string]string) *env {
	e := &env{g: g, vars: map[string]T{}, state: st, old: g.initState()}
	for k, v := range g.params {
		e.vars[k] = v
	}
	// variables visible by debug name: values defined in dominating blocks
	for _, blk := range g.domChain(h) {
		for n, t := range g.debugVars[blk] {
			e.vars[n] = t
		}
	}
	// variables of the enclosing loops (rangeindex<k>, rangeslice<k>, and their phis by name)
	for n, t := range g.loopVars(h, h) {
		e.vars[n] = t
	}
	if rs := g.rangeSlice(h); rs != nil {
		if t, ok := g.vals[rs]; ok {
			e.vars["rangeslice"] = t
			e.vars[fmt.Sprintf("rangeslice%d", g.loopOrd[h])] = t
		}
	}
	for phi, t := range phiVals {
		if phi.Comment == "rangeindex" {
			e.vars[fmt.Sprintf("rangeindex%d", g.loopOrd[h])] = t
		}
		name := phi.Comment
		if name != "" {
			e.vars[name] = t
		}
		e.vars[phi.Name()] = t
	}
	return e
}

func (g *gen) initState() map[string]string {
	st := map[string]string{}
	for _, c := range g.compList {
		st[c] = c + "@0"
	}
	return st
}

func (g *gen) doLoopHead(ci *cfgInfo, h *ssa.BasicBlock, conds []string, preds []*ssa.BasicBlock) {
	k := g.loopOrd[h]
	var spec *LoopSpec
	if g.ct != nil {
		spec = g.ct.Loops[k]
	}
	idxOf := map[*ssa.BasicBlock]int{}
	for i, p := range h.Preds {
		idxOf[p] = i
	}
	var phis []*ssa.Phi
	for _, in := range h.Instrs {
		if p, ok := in.(*ssa.Phi); ok {
			phis = append(phis, p)
		} else {
			break
		}
	}
	// entry values
	entryVals := map[*ssa.Phi]T{}
	for _, phi := range phis {
		var t string
		var tv T
		for i := len(preds) - 1; i >= 0; i-- {
			v := g.operand(phi.Edges[idxOf[preds[i]]])
			tv = v
			if i == len(preds)-1 {
				t = v.S
			} else {
				t = sx("ite", conds[i], v.S, t)
			}
		}
		s, sg := g.sortOf(phi.Type())
		n := g.define(mangle(phi.Name())+".in", s, t)
		entryVals[phi] = T{S: n, Sort: s, Signed: sg, GoT: tv.GoT}
	}
	entryState := g.cur
	// init obligations
	if spec != nil {
		e := g.loopEnv(h, entryVals, entryState)
		for j, inv := range spec.Invariants {
			g.oblige("loop.init", fmt.Sprintf("loop%d.init[%d]", k, j+1), inv.Text, g.specBool(e, inv), h.Instrs[0].Pos())
		}
		// "loop k ranges <expr>": the slice the loop ranges over is that one (checked where the loop is entered)
		for j, rg := range spec.Ranges {
			rs, ok := e.vars["rangeslice"]
			goal := "false"
			if ok {
				want := g.specExpr(e, rg.Expr, sSlice, rg)
				goal = sx("=", rs.S, want.S)
			}
			g.oblige("loop.init", fmt.Sprintf("loop%d.ranges[%d]", k, j+1), "the loop ranges over "+rg.Text, goal, h.Instrs[0].Pos())
		}
	}
	// havoc: phis, and state components modified in the loop body
	mods, all := g.loopMods(ci, h)
	newState := map[string]string{}
	for c, v := range entryState {
		newState[c] = v
	}
	g.cur = newState
	if all {
		g.havocHeapKeepingStable()
		// locals allocated before the loop and written inside it are not stable across iterations
		var as []*ssa.Alloc
		for a := range g.loopLocalStores[h] {
			as = append(as, a)
		}
		sort.Slice(as, func(i, j int) bool { return as[i].Pos() < as[j].Pos() })
		for _, a := range as {
			if addr, ok := g.allocAddr[a]; ok {
				et := a.Type().Underlying().(*types.Pointer).Elem()
				g.storeAt(addr, et, g.freshOfType(et, "lploc").S)
			}
		}
	}
	for _, c := range g.compList {
		if mods[c] && !(all && strings.HasPrefix(c, "H")) {
			old := g.comp(c, "")
			nw := g.declConst(strings.ReplaceAll(c, "@", "_")+".lp", g.compSort[c])
			g.cur[c] = nw
			if c == "nalloc" {
				g.assume(sx(">=", nw, old))
			}
		}
	}
	// the allocation counter at the head: everything allocated in this iteration lies above it
	if g.loopNalloc == nil {
		g.loopNalloc = map[*ssa.BasicBlock]string{}
	}
	g.loopNalloc[h] = g.nalloc()
	phiVals := map[*ssa.Phi]T{}
	for _, phi := range phis {
		t := g.freshOfType(phi.Type(), mangle(phi.Name()))
		g.vals[phi] = t
		phiVals[phi] = t
		if phi.Comment == "rangeindex" {
			// the hidden index of a range loop starts at -1 and is only ever incremented below the length
			g.assume(and(g.idxLe(g.idxLit(-1), t.S), g.idxLe(t.S, g.idxMaxLen())))
		}
	}
	// assume invariants
	if spec != nil {
		e := g.loopEnv(h, phiVals, g.cur)
		e.assuming = true
		for _, inv := range spec.Invariants {
			g.assume(implies(g.curReach, g.specBool(e, inv)))
		}
	}
	// built-in invariants of protocol units
	for _, inv := range g.autoInvariants() {
		e := g.loopEnv(h, phiVals, g.cur)
		g.assume(implies(g.curReach, g.specBoolText(e, inv)))
	}
	// remember for the back edges
	g.w.loopHeads[h] = &loopHead{k: k, spec: spec, phis: phis}
}

type loopGoal struct {
	name, clause string
	parts        []string
	pos          token.Pos
}

type loopHead struct {
	goals []*loopGoal
	edges int
	k    int
	spec *LoopSpec
	phis []*ssa.Phi
}

func (g *gen) autoInvariants() []string {
	if g.unit.ErrFlow {
		return []string{"!failed"}
	}
	return nil
}

func (g *gen) havocHeapKeepingStable() { g.havocHeap("loop") }

// loopMods: state components possibly modified in the natural loop of h.
func (g *gen) loopMods(ci *cfgInfo, h *ssa.BasicBlock) (map[string]bool, bool) {
	mods := map[string]bool{}
	all := false
	for b := range ci.body[h] {
		for _, in := range b.Instrs {
			switch x := in.(type) {
			case *ssa.Store:
				// a store into a non-escaping local that is allocated afresh in every iteration carries
				// nothing from one iteration to the next: it does not change the state seen at the head
				if a := rootAlloc(x.Addr); a != nil && g.stable[a] && ci.body[h][a.Block()] {
					continue
				}
				// a store into a local that was allocated before the loop changes what the head sees, also
				// when that local has not escaped (the wholesale heap havoc below keeps such locals)
				if a := rootAlloc(x.Addr); a != nil && !ci.body[h][a.Block()] {
					if g.loopLocalStores == nil {
						g.loopLocalStores = map[*ssa.BasicBlock]map[*ssa.Alloc]bool{}
					}
					if g.loopLocalStores[h] == nil {
						g.loopLocalStores[h] = map[*ssa.Alloc]bool{}
					}
					g.loopLocalStores[h][a] = true
				}
				for _, c := range g.storeComps(x) {
					mods[c] = true
				}
			case *ssa.Alloc, *ssa.MakeSlice, *ssa.MakeClosure, *ssa.MakeMap:
				mods["nalloc"] = true
				if a, ok := x.(*ssa.Alloc); ok && !g.stable[a] {
					// zero-initialisation writes
					for _, c := range g.compsOfType(a.Type().Underlying().(*types.Pointer).Elem()) {
						mods[c] = true
					}
				}
			case *ssa.Go, *ssa.Defer:
				// spawning / registering does not run the callee here (goroutines are not modelled: D1)
			case ssa.CallInstruction:
				cm, call := g.callMods(x)
				if call {
					all = true
				}
				for _, c := range cm {
					mods[c] = true
				}
				mods["nalloc"] = true
			case *ssa.MapUpdate:
				vc, hc, _, _ := g.mapComps(x.Map.Type().Underlying().(*types.Map))
				mods[vc], mods[hc] = true, true
			case *ssa.Send:
			}
		}
	}
	if all {
		// ghost components may change through default effects only; heap is havocked wholesale
		for _, gh := range g.unit.Ghosts {
			_ = gh
		}
	}
	return mods, all
}

// compsOfType: heap components that hold a value of type t stored at some address.
func (g *gen) compsOfType(t types.Type) []string {
	t = types.Unalias(t)
	switch u := t.Underlying().(type) {
	case *types.Struct:
		if isErrorType(t) {
			break
		}
		name := g.structSort(t)
		var cs []string
		for i, f := range g.structFields(u) {
			switch f.Typ.Underlying().(type) {
			case *types.Struct, *types.Array:
				if !isErrorType(f.Typ) {
					cs = append(cs, g.compsOfType(f.Typ)...)
					continue
				}
			}
			cs = append(cs, g.heapField(name, i, f.Sort))
		}
		return cs
	case *types.Array:
		es, _ := g.sortOf(u.Elem())
		return []string{g.heapSlice(es)}
	}
	s, _ := g.sortOf(t)
	return []string{g.heapCell(s)}
}

func (g *gen) storeComps(s *ssa.Store) []string {
	switch x := s.Addr.(type) {
	case *ssa.FieldAddr:
		pt := x.X.Type().Underlying().(*types.Pointer).Elem()
		st := pt.Underlying().(*types.Struct)
		name := g.structSort(pt)
		f := g.structFields(st)[x.Field]
		switch f.Typ.Underlying().(type) {
		case *types.Struct, *types.Array:
			if !isErrorType(f.Typ) {
				return g.compsOfType(f.Typ)
			}
		}
		return []string{g.heapField(name, x.Field, f.Sort)}
	case *ssa.IndexAddr:
		var et types.Type
		switch u := x.X.Type().Underlying().(type) {
		case *types.Slice:
			et = u.Elem()
		case *types.Pointer:
			et = u.Elem().Underlying().(*types.Array).Elem()
		}
		switch et.Underlying().(type) {
		case *types.Struct, *types.Array:
			if !isErrorType(et) {
				return g.compsOfType(et)
			}
		}
		es, _ := g.sortOf(et)
		return []string{g.heapSlice(es)}
	}
	return g.compsOfType(s.Val.Type())
}

func (g *gen) doBackEdge(ci *cfgInfo, from, h *ssa.BasicBlock, cond string) {
	lh := g.w.loopHeads[h]
	if lh == nil {
		return
	}
	lh.edges++
	idx := -1
	for i, p := range h.Preds {
		if p == from {
			idx = i
		}
	}
	phiVals := map[*ssa.Phi]T{}
	for _, phi := range lh.phis {
		phiVals[phi] = g.operand(phi.Edges[idx])
	}
	reach := and(g.curReach, cond)
	e := g.loopEnv(h, phiVals, g.cur)
	pos := from.Instrs[len(from.Instrs)-1].Pos()
	// the goals of all back edges of a loop are collected and emitted as one obligation per
	// invariant (finish), so that a new `continue` cannot escape a locked obligation
	if lh.spec != nil {
		for j, inv := range lh.spec.Invariants {
			lh.addGoal(fmt.Sprintf("loop%d.preserve[%d]", lh.k, j+1), inv.Text, implies(reach, g.specBool(e, inv)), pos)
		}
		for j, ev := range lh.spec.Every {
			cr, ok := g.callReach[fmt.Sprintf("%s#%d", ev.Callee, ev.Ord)]
			if !ok {
				cr = "false"
			}
			lh.addGoal(fmt.Sprintf("loop%d.every[%d]", lh.k, j+1), ev.Text, implies(reach, cr), pos)
		}
	}
	for j, inv := range g.autoInvariants() {
		lh.addGoal(fmt.Sprintf("loop%d.auto[%d]", lh.k, j+1), inv, implies(reach, g.specBoolText(e, inv)), pos)
	}
}

// ---------------------------------------------------------------- finish: ensures, frame, covers

func (g *gen) finish() {
	ct := g.ct
	// loop preservation obligations: one per invariant, over all back edges
	for _, b := range g.fn.Blocks {
		if lh := g.w.loopHeads[b]; lh != nil {
			for _, lg := range lh.goals {
				kind := "loop.preserve"
				g.addObl(kind, lg.name, lg.clause, and(lg.parts...), lg.pos)
			}
		}
	}
	// postconditions, one obligation per clause over all return sites
	for i, en := range ct.Ensures {
		var parts []string
		for _, rs := range g.retSites {
			e := g.retEnv(rs)
			parts = append(parts, implies(rs.reach, g.specBool(e, en)))
		}
		o := g.addObl("ensures", fmt.Sprintf("ensures[%d]", i+1), en.Text, and(parts...), en.pos(g))
		for _, kn := range ct.Known {
			if kn.Clause == fmt.Sprintf("ensures[%d]", i+1) {
				o.Known = kn
				o.KnownEx = g.specBool(g.entryEnv(), kn.Excluding)
			}
		}
	}
	// frame: ghost components not listed in modifies are unchanged
	if len(g.retSites) > 0 {
		modset := map[string]bool{}
		for _, m := range ct.Modifies {
			modset[m] = true
		}
		for _, gh := range g.unit.Ghosts {
			if modset[gh.Name] {
				continue
			}
			c := "G." + gh.Name
			var parts []string
			for _, rs := range g.retSites {
				parts = append(parts, implies(rs.reach, sx("=", g.stateGet(rs.state, c), c+"@0")))
			}
			g.addObl("frame", "frame."+gh.Name, "ghost "+gh.Name+" unchanged (not in modifies)", and(parts...), g.fn.Pos())
		}
		if g.unit.Strict {
			g.frameHeap(modset)
		}
	}
	// covers: every return site reachable
	for _, rs := range g.retSites {
		o := g.addObl("reach", fmt.Sprintf("reach.ret%d", rs.idx), "return reachable", not(rs.reach), rs.pos)
		o.Cover = true
	}
	if g.unit.Strict && len(g.unmod) > 0 {
		g.addObl("subset", "subset", "function inside the modelled subset: "+strings.Join(g.unmod, "; "), "false", g.fn.Pos())
	}
}

func (c *Clause) pos(g *gen) token.Pos { return g.fn.Pos() }

// frameHeap: in strict (functional) units every pre-existing heap location keeps its value unless
// the contract lists it under modifies ("x[*]" for the elements of slice parameter x).
func (g *gen) frameHeap(modset map[string]bool) {
	for _, c := range g.compList {
		if !strings.HasPrefix(c, "H") {
			continue
		}
		changed := false
		for _, rs := range g.retSites {
			if g.stateGet(rs.state, c) != c+"@0" {
				changed = true
			}
		}
		if !changed {
			continue
		}
		var parts []string
		for _, rs := range g.retSites {
			fin := g.stateGet(rs.state, c)
			if strings.HasPrefix(c, "HS.") {
				// forall region r < nalloc0, index i: unchanged unless (r,i) in a modifies target
				excl := []string{}
				for m := range modset {
					if strings.HasSuffix(m, "[*]") {
						pn := strings.TrimSuffix(m, "[*]")
						if p, ok := g.params[pn]; ok && p.Sort == sSlice {
							excl = append(excl, and(sx("=", "r!", sx("s.reg", p.S)), g.idxLe(sx("s.off", p.S), "i!"), g.idxLt("i!", g.idxAdd(sx("s.off", p.S), sx("s.len", p.S)))))
						}
					}
				}
				body := implies(and(sx("<", "r!", "nalloc@0"), not(or(excl...))), sx("=", sx("select", sx("select", fin, "r!"), "i!"), sx("select", sx("select", c+"@0", "r!"), "i!")))
				parts = append(parts, implies(rs.reach, fmt.Sprintf("(forall ((r! Int) (i! %s)) %s)", g.idx, body)))
			} else {
				body := implies(sx("<", "r!", "nalloc@0"), sx("=", sx("select", fin, "r!"), sx("select", c+"@0", "r!")))
				parts = append(parts, implies(rs.reach, fmt.Sprintf("(forall ((r! Int)) %s)", body)))
			}
		}
		g.addObl("frame", "frame."+c, "pre-existing memory of "+c+" unchanged (not in modifies)", and(parts...), g.fn.Pos())
	}
}

func (g *gen) retEnv(rs *retSite) *env {
	g.curBlock = rs.block
	e := &env{g: g, vars: map[string]T{}, state: rs.state, old: g.initState()}
	// locals by debug name: values defined in the blocks that dominate the return (parameters and
	// results of the same name take precedence)
	if rs.block != nil {
		for _, blk := range append(g.domChain(rs.block), rs.block) {
			for n, t := range g.debugVars[blk] {
				e.vars[n] = t
			}
		}
	}
	for k, v := range g.params {
		e.vars[k] = v
	}
	for i, n := range g.results {
		if i < len(rs.vals) {
			e.vars[n] = rs.vals[i]
		}
	}
	if len(rs.vals) == 1 {
		e.vars["result"] = rs.vals[0]
	}
	if n := len(rs.vals); n > 0 && rs.vals[n-1].Sort == sErr {
		e.vars["errResult"] = rs.vals[n-1]
	}
	return e
}

// domChain: strict dominators of h from the entry block down to h's immediate dominator
func (g *gen) domChain(h *ssa.BasicBlock) []*ssa.BasicBlock {
	var chain []*ssa.BasicBlock
	for b := h.Idom(); b != nil; b = b.Idom() {
		chain = append([]*ssa.BasicBlock{b}, chain...)
	}
	return chain
}

// disciplines: structural obligations (decided from the SSA, no solver reasoning needed): every
// closure created here whose body can reach a call of d.Callee is used only as the argument of
// d.Registrar.
func (g *gen) disciplines() {
	for _, d := range g.unit.Disciplines {
		n := 0
		for _, b := range g.fn.Blocks {
			for _, in := range b.Instrs {
				mc, ok := in.(*ssa.MakeClosure)
				if !ok || !g.closureCalls(mc.Fn.(*ssa.Function), d.Callee, map[*ssa.Function]bool{}) {
					continue
				}
				n++
				okUse := true
				why := ""
				if refs := mc.Referrers(); refs != nil {
					for _, r := range *refs {
						switch x := r.(type) {
						case *ssa.DebugRef:
						case ssa.CallInstruction:
							full, _ := g.calleeName(x.Common())
							isArg := false
							for _, a := range x.Common().Args {
								isArg = isArg || a == ssa.Value(mc)
							}
							if _, isDefer := x.(*ssa.Defer); isDefer || !isArg || full != d.Registrar {
								okUse = false
								why = "used by " + full
							}
						default:
							okUse = false
							why = fmt.Sprintf("used by %T", r)
						}
					}
				}
				goal := "true"
				if !okUse {
					goal = "false"
				}
				o := g.addObl("discipline", fmt.Sprintf("closure-calling.%s#%d", g.w.shortKey(d.Callee), n),
					fmt.Sprintf("closure that calls %s is only registered with %s %s", d.Callee, d.Registrar, why), goal, mc.Pos())
				o.Prelude = 0
			}
		}
	}
}

func (g *gen) closureCalls(fn *ssa.Function, callee string, seen map[*ssa.Function]bool) bool {
	if seen[fn] {
		return false
	}
	seen[fn] = true
	for _, b := range fn.Blocks {
		for _, in := range b.Instrs {
			switch x := in.(type) {
			case ssa.CallInstruction:
				full, _ := g.calleeName(x.Common())
				if full == callee {
					return true
				}
			case *ssa.MakeClosure:
				if g.closureCalls(x.Fn.(*ssa.Function), callee, seen) {
					return true
				}
			}
		}
	}
	return false
}

// rangeSlice: for a `for ... range <slice>` loop headed by h, the slice value being ranged over.
func (g *gen) rangeSlice(h *ssa.BasicBlock) ssa.Value {
	var idxPhi *ssa.Phi
	for _, in := range h.Instrs {
		if p, ok := in.(*ssa.Phi); ok && p.Comment == "rangeindex" {
			idxPhi = p
		}
	}
	if idxPhi == nil {
		return nil
	}
	var inc ssa.Value
	for _, in := range h.Instrs {
		if b, ok := in.(*ssa.BinOp); ok && b.X == ssa.Value(idxPhi) {
			inc = b
		}
	}
	if inc == nil || inc.Referrers() == nil {
		return nil
	}
	for _, r := range *inc.Referrers() {
		if ia, ok := r.(*ssa.IndexAddr); ok && ia.Index == inc {
			return ia.X
		}
	}
	return nil
}

// rootAlloc: the local allocation an address value is derived from (through field/index addressing)
func rootAlloc(v ssa.Value) *ssa.Alloc {
	for {
		switch x := v.(type) {
		case *ssa.Alloc:
			return x
		case *ssa.FieldAddr:
			v = x.X
		case *ssa.IndexAddr:
			v = x.X
		case *ssa.Slice:
			v = x.X
		default:
			return nil
		}
	}
}

// markEscapes: flow-sensitive escape information.  A local allocation is kept across the havoc of
// an unknown call as long as its address has not been handed to anything that could retain it.
func (g *gen) markEscapes(in ssa.Instruction) {
	if g.escaped == nil {
		g.escaped = map[*ssa.Alloc]bool{}
	}
	switch x := in.(type) {
	case *ssa.UnOp, *ssa.FieldAddr, *ssa.IndexAddr, *ssa.DebugRef, *ssa.Slice:
		return
	case *ssa.Store:
		if a := rootAlloc(x.Val); a != nil {
			g.escaped[a] = true
		}
		return
	case *ssa.Call:
		if b, ok := x.Call.Value.(*ssa.Builtin); ok && (b.Name() == "append" || b.Name() == "len" || b.Name() == "cap") {
			// append copies the elements of its tail; a slice of a local array passed as the tail does not leak
			if b.Name() == "append" && len(x.Call.Args) > 0 {
				if a := rootAlloc(x.Call.Args[0]); a != nil {
					g.escaped[a] = true
				}
			}
			return
		}
	}
	for _, op := range in.Operands(nil) {
		if op == nil || *op == nil {
			continue
		}
		if a := rootAlloc(*op); a != nil {
			g.escaped[a] = true
		}
	}
}

// numberCalls: the k-th call of a callee is counted in source order (position), so that anchors
// such as "call#2 AddDelta" do not depend on the block layout chosen by the SSA builder.
func (g *gen) numberCalls() {
	g.srcOrd = map[ssa.Instruction]int{}
	by := map[string][]*ssa.Call{}
	for _, b := range g.fn.Blocks {
		for _, in := range b.Instrs {
			if c, ok := in.(*ssa.Call); ok {
				if _, isB := c.Call.Value.(*ssa.Builtin); isB {
					continue
				}
				full, _ := g.calleeName(&c.Call)
				by[full] = append(by[full], c)
			}
		}
	}
	for _, cs := range by {
		sort.SliceStable(cs, func(i, j int) bool { return cs[i].Pos() < cs[j].Pos() })
		for i, c := range cs {
			g.srcOrd[c] = i + 1
		}
	}
}

func (lh *loopHead) addGoal(name, clause, goal string, pos token.Pos) {
	for _, g := range lh.goals {
		if g.name == name {
			g.parts = append(g.parts, goal)
			return
		}
	}
	lh.goals = append(lh.goals, &loopGoal{name: name, clause: clause, parts: []string{goal}, pos: pos})
}

// loopVars: names bound by the loops that enclose block b (excluding the loop headed by skip): the
// header phis by their source names, the hidden range index as rangeindex / rangeindex<k> and the
// ranged-over slice as rangeslice / rangeslice<k> (k = loop ordinal); inner loops shadow outer ones.
func (g *gen) loopVars(b *ssa.BasicBlock, skip *ssa.BasicBlock) map[string]T {
	out := map[string]T{}
	if g.ci == nil {
		return out
	}
	type hb struct {
		h *ssa.BasicBlock
		n int
	}
	var hs []hb
	for h, body := range g.ci.body {
		if h != skip && body[b] {
			hs = append(hs, hb{h, len(body)})
		}
	}
	sort.Slice(hs, func(i, j int) bool { return hs[i].n > hs[j].n }) // outermost first
	for _, x := range hs {
		k := g.loopOrd[x.h]
		for _, in := range x.h.Instrs {
			phi, ok := in.(*ssa.Phi)
			if !ok {
				break
			}
			t, ok := g.vals[phi]
			if !ok {
				continue
			}
			if phi.Comment != "" {
				out[phi.Comment] = t
			}
			if phi.Comment == "rangeindex" {
				out[fmt.Sprintf("rangeindex%d", k)] = t
			}
		}
		if rs := g.rangeSlice(x.h); rs != nil {
			if t, ok := g.vals[rs]; ok {
				out["rangeslice"] = t
				out[fmt.Sprintf("rangeslice%d", k)] = t
			}
		}
	}
	return out
}
