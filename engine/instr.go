package main

import (
	"fmt"
	"go/constant"
	"go/token"
	"go/types"
	"strings"

	"golang.org/x/tools/go/ssa"
)

func (g *gen) doInstr(ci *cfgInfo, in ssa.Instruction) {
	switch x := in.(type) {
	case *ssa.DebugRef:
		if v, ok := x.Object().(*types.Var); ok && v.IsField() {
			// the selector of p.f refers to the field object: not a local variable of that name
			return
		}
		if x.IsAddr && x.Object() != nil {
			// a variable that lives in memory: remember its address; specs read it through the heap
			m := g.debugVars[g.curBlock]
			if m == nil {
				m = map[string]T{}
				g.debugVars[g.curBlock] = m
			}
			t := g.operand(x.X)
			t.AddrOf = true
			t.GoT = x.X.Type()
			m[x.Object().Name()] = t
		}
		if !x.IsAddr {
			if x.Object() != nil {
				m := g.debugVars[g.curBlock]
				if m == nil {
					m = map[string]T{}
					g.debugVars[g.curBlock] = m
				}
				m[x.Object().Name()] = g.operand(x.X)
			}
		}
	case *ssa.Alloc:
		addr := g.allocAddrNew()
		g.allocAddr[x] = addr
		g.noteAddr(addr, x)
		g.declare("atag", "(declare-fun atag (Int) Int)")
		g.assume(sx("=", sx("atag", addr), "0"))
		g.vals[x] = T{S: addr, Sort: sPtr, GoT: x.Type()}
		et := x.Type().Underlying().(*types.Pointer).Elem()
		g.storeAt(addr, et, g.zero(et).S)
	case *ssa.UnOp:
		g.doUnOp(x)
	case *ssa.BinOp:
		g.doBinOp(x)
	case *ssa.Convert:
		g.doConvert(x)
	case *ssa.ChangeType:
		v := g.operand(x.X)
		s, _ := g.sortOf(x.Type())
		if s == v.Sort {
			g.setVal(x, v.S)
		} else {
			g.freshVal(x)
		}
	case *ssa.ChangeInterface:
		v := g.operand(x.X)
		s, _ := g.sortOf(x.Type())
		if s == v.Sort {
			g.setVal(x, v.S)
		} else if s == sIface && v.Sort == sErr {
			g.declare("err2if", "(declare-fun err2if (Err) Iface)\n(assert (= (err2if errnil) ifnil))")
			r := g.setVal(x, sx("err2if", v.S))
			g.assume(sx("=", sx("=", v.S, "errnil"), sx("=", r.S, "ifnil")))
		} else {
			g.freshVal(x)
		}
	case *ssa.MakeInterface:
		v := g.operand(x.X)
		s, _ := g.sortOf(x.Type())
		g.ensureSort(v.Sort)
		switch s {
		case sErr:
			fn := "mkerr." + sortID(v.Sort)
			g.declare(fn, fmt.Sprintf("(declare-fun %s (%s) Err)", fn, v.Sort))
			r := g.setVal(x, sx(fn, v.S))
			g.assume(not(sx("=", r.S, "errnil")))
		case sIface:
			// one boxing function per dynamic type: the same value boxed as two different types (a named
			// pointer type and its underlying pointer, say) gives two interface values with different tags
			fn, unfn := g.boxFns(v.Sort, x.X.Type())
			g.declare("itag", "(declare-fun itag (Iface) Int)")
			r := g.setVal(x, sx(fn, v.S))
			// boxed values are non-nil, remember their dynamic type and content
			g.assume(and(not(sx("=", r.S, "ifnil")), sx("=", sx("itag", r.S), fmt.Sprint(g.w.typeID(x.X.Type()))), sx("=", sx(unfn, r.S), v.S)))
		default:
			g.freshVal(x)
		}
	case *ssa.TypeAssert:
		g.doTypeAssert(x)
	case *ssa.Extract:
		tup := g.tuples[x.Tuple]
		if tup == nil || x.Index >= len(tup) {
			g.freshVal(x)
		} else {
			t := tup[x.Index]
			g.vals[x] = t
		}
	case *ssa.Phi:
	case *ssa.FieldAddr, *ssa.IndexAddr:
		if ia, ok := x.(*ssa.IndexAddr); ok && g.noPanic() {
			g.boundsCheck(ia)
		}
		// resolved lazily by locOf at loads and stores
	case *ssa.Field:
		v := g.operand(x.X)
		name := g.structSort(x.X.Type())
		g.setVal(x, sx(fmt.Sprintf("%s.%d", name, x.Field), v.S))
	case *ssa.Index:
		v := g.operand(x.X)
		switch x.X.Type().Underlying().(type) {
		case *types.Array:
			g.setVal(x, sx("select", v.S, g.toIdx(g.operand(x.Index))))
		case *types.Basic: // string
			g.setVal(x, sx("gstr.at", v.S, g.toIdx(g.operand(x.Index))))
		default:
			g.freshVal(x)
		}
	case *ssa.Slice:
		g.doSlice(x)
	case *ssa.MakeSlice:
		addr := g.allocAddrNew()
		n := g.toIdx(g.operand(x.Len))
		es, _ := g.sortOf(x.Type().Underlying().(*types.Slice).Elem())
		h := g.heapSlice(es)
		zero := g.constArray(fmt.Sprintf("(Array %s %s)", g.idx, es), es, x.Type().Underlying().(*types.Slice).Elem())
		g.setComp(h, sx("store", g.comp(h, ""), addr, zero))
		g.setVal(x, sx("mk-slice", addr, g.idxLit(0), n))
	case *ssa.MakeMap:
		mt := x.Type().Underlying().(*types.Map)
		_, hc, ks, _ := g.mapComps(mt)
		addr := g.allocAddrNew()
		g.setComp(hc, sx("store", g.comp(hc, ""), addr, fmt.Sprintf("((as const (Array %s Bool)) false)", ks)))
		g.vals[x] = T{S: addr, Sort: sPtr, GoT: x.Type()}
	case *ssa.MakeChan:
		g.freshVal(x)
	case *ssa.MakeClosure:
		g.closures[x] = x
		t := g.freshVal(x)
		g.assume(not(sx("=", t.S, "fnnil")))
	case *ssa.Lookup:
		mt, isMap := x.X.Type().Underlying().(*types.Map)
		if !isMap {
			g.freshVal(x)
			break
		}
		vc, hc, _, vs := g.mapComps(mt)
		m, k := g.operand(x.X), g.operand(x.Index)
		has := sx("select", sx("select", g.comp(hc, ""), m.S), k.S)
		val := sx("ite", has, sx("select", sx("select", g.comp(vc, ""), m.S), k.S), g.zeroOfSort(vs, mt.Elem()))
		_, sg := g.sortOf(mt.Elem())
		vt := T{S: g.define("mv", vs, val), Sort: vs, Signed: sg, GoT: mt.Elem()}
		if x.CommaOk {
			g.tuples[x] = []T{vt, {S: g.define("mok", sBool, has), Sort: sBool}}
			g.vals[x] = T{S: "TUPLE", Sort: "TUPLE"}
		} else {
			g.vals[x] = vt
		}
	case *ssa.MapUpdate:
		mt := x.Map.Type().Underlying().(*types.Map)
		vc, hc, _, _ := g.mapComps(mt)
		m, k, v := g.operand(x.Map), g.operand(x.Key), g.operand(x.Value)
		cv, ch := g.comp(vc, ""), g.comp(hc, "")
		g.setComp(vc, sx("store", cv, m.S, sx("store", sx("select", cv, m.S), k.S, v.S)))
		g.setComp(hc, sx("store", ch, m.S, sx("store", sx("select", ch, m.S), k.S, "true")))
	case *ssa.Range:
		g.freshVal(x)
		g.unmodelled("range over map/string", x.Pos())
	case *ssa.Next:
		g.freshVal(x)
	case *ssa.Select:
		g.freshVal(x)
		g.unmodelled("select", x.Pos())
	case *ssa.Send:
		g.unmodelled("channel send", x.Pos())
		// a send is an anchor for in-body assertions ("assert before call#k chansend: ..."): what must hold
		// (a lock held, a flag clear) at the moment the value is handed to the channel
		g.callOrd["chansend"]++
		g.anchoredAsserts("chansend", "chansend", g.callOrd["chansend"], false, nil, nil, x.Pos())
	case *ssa.Go:
		g.unmodelled("go statement", x.Pos())
		g.event("go", x.Common(), x.Pos())
	case *ssa.Defer:
		g.defers = append(g.defers, x)
		g.doDeferReg(x)
	case *ssa.RunDefers:
		g.doRunDefers(x)
	case *ssa.Store:
		et := x.Addr.Type().Underlying().(*types.Pointer).Elem()
		g.store(x.Addr, et, g.operand(x.Val).S)
	case *ssa.Call:
		g.doCall(x)
	case *ssa.Panic:
		g.exitReach[g.curBlock] = "false"
		if g.noPanic() {
			g.oblige("nopanic", g.npName("panic"), "explicit panic unreachable", "false", x.Pos())
		}
	case *ssa.Jump:
		b := g.curBlock
		s := b.Succs[0]
		if ci.back[[2]*ssa.BasicBlock{b, s}] {
			g.doBackEdge(ci, b, s, "true")
		}
		g.edgeCond[[2]*ssa.BasicBlock{b, s}] = "true"
	case *ssa.If:
		b := g.curBlock
		c := g.operand(x.Cond).S
		if b.Succs[0] == b.Succs[1] {
			g.edgeCond[[2]*ssa.BasicBlock{b, b.Succs[0]}] = "true"
		} else {
			g.edgeCond[[2]*ssa.BasicBlock{b, b.Succs[0]}] = c
			g.edgeCond[[2]*ssa.BasicBlock{b, b.Succs[1]}] = not(c)
		}
		for i, s := range b.Succs {
			if ci.back[[2]*ssa.BasicBlock{b, s}] {
				cc := c
				if i == 1 {
					cc = not(c)
				}
				g.doBackEdge(ci, b, s, cc)
			}
		}
	case *ssa.Return:
		var vs []T
		for _, r := range x.Results {
			vs = append(vs, g.operand(r))
		}
		st := map[string]string{}
		for k, v := range g.cur {
			st[k] = v
		}
		g.retSites = append(g.retSites, &retSite{block: g.curBlock, reach: g.curReach, vals: vs, state: st, pos: x.Pos(), idx: len(g.retSites) + 1})
	case *ssa.SliceToArrayPointer:
		g.freshVal(x)
		g.unmodelled("slice to array pointer", x.Pos())
	case *ssa.MultiConvert:
		g.freshVal(x)
	default:
		if v, ok := in.(ssa.Value); ok {
			g.freshVal(v)
		}
		g.unmodelled(fmt.Sprintf("instruction %T", in), in.Pos())
	}
}

func (g *gen) boundsCheck(ia *ssa.IndexAddr) {
	// constant index into a fixed-size array: checked by the compiler
	if c, ok := ia.Index.(*ssa.Const); ok {
		if p, ok := ia.X.Type().Underlying().(*types.Pointer); ok {
			if a, ok := p.Elem().Underlying().(*types.Array); ok {
				if v, ok := constant.Int64Val(c.Value); ok && v >= 0 && v < a.Len() {
					return
				}
			}
		}
	}
	idx := g.toIdx(g.operand(ia.Index))
	var n string
	switch u := ia.X.Type().Underlying().(type) {
	case *types.Slice:
		n = sx("s.len", g.operand(ia.X).S)
	case *types.Pointer:
		n = g.idxLit(u.Elem().Underlying().(*types.Array).Len())
	}
	g.oblige("nopanic", g.npName("index"), "index in range", and(g.idxLe(g.idxLit(0), idx), g.idxLt(idx, n)), ia.Pos())
}

func (g *gen) doUnOp(x *ssa.UnOp) {
	switch x.Op {
	case token.MUL:
		if x.Type().Underlying() != nil {
			if _, ok := x.Type().Underlying().(*types.Tuple); ok {
				g.freshVal(x)
				return
			}
		}
		lv := g.setVal(x, g.load(x.X, x.Type()))
		if lv.Sort == sPtr {
			g.assume(and(sx("<=", "0", lv.S), sx("<", lv.S, g.nalloc())))
		}
		if lv.Sort == sSlice {
			g.assume(g.wfSlice(lv.S)) // every slice value in memory is well formed
		}
	case token.NOT:
		g.setVal(x, not(g.operand(x.X).S))
	case token.SUB:
		v := g.operand(x.X)
		switch {
		case isFP(v.Sort):
			g.setVal(x, sx("fp.neg", v.S))
		case v.Sort == sInt:
			g.setVal(x, sx("-", v.S))
		default:
			g.setVal(x, sx("bvneg", v.S))
		}
	case token.XOR:
		v := g.operand(x.X)
		if v.Sort == sInt {
			g.setVal(x, sx("-", sx("-", v.S), "1"))
		} else {
			g.setVal(x, sx("bvnot", v.S))
		}
	case token.ARROW:
		g.freshVal(x)
		g.unmodelled("channel receive", x.Pos())
	default:
		g.freshVal(x)
	}
}

func (g *gen) doBinOp(x *ssa.BinOp) {
	a, b := g.operand(x.X), g.operand(x.Y)
	t, ok := g.binop(x.Op, a, b)
	if !ok {
		g.freshVal(x)
		g.unmodelled("binop "+x.Op.String()+" on "+a.Sort, x.Pos())
		return
	}
	if g.noPanic() && (x.Op == token.QUO || x.Op == token.REM) && !isFP(a.Sort) {
		g.oblige("nopanic", g.npName("div"), "divisor non-zero", not(sx("=", b.S, g.zeroOfSort(b.Sort, nil))), x.Pos())
	}
	g.setVal(x, t)
}

func (g *gen) binop(op token.Token, a, b T) (string, bool) {
	s := a.Sort
	switch {
	case s == sBool:
		switch op {
		case token.EQL:
			return sx("=", a.S, b.S), true
		case token.NEQ:
			return not(sx("=", a.S, b.S)), true
		case token.LAND, token.AND:
			return and(a.S, b.S), true
		case token.LOR, token.OR:
			return or(a.S, b.S), true
		}
	case isBV(s):
		w := bvWidth(s)
		// shifts: the count may have a different width
		if op == token.SHL || op == token.SHR {
			cnt := b.S
			var tooBig string
			if isBV(b.Sort) {
				bw := bvWidth(b.Sort)
				switch {
				case bw < w:
					cnt = sx(fmt.Sprintf("(_ zero_extend %d)", w-bw), b.S)
					tooBig = "false"
				case bw > w:
					tooBig = sx("bvuge", b.S, bvLit(uint64(w), bw))
					cnt = sx(fmt.Sprintf("(_ extract %d 0)", w-1), b.S)
				default:
					tooBig = "false"
				}
			} else if b.Sort == sInt {
				tooBig = sx(">=", b.S, fmt.Sprint(w))
				cnt = sx(fmt.Sprintf("(_ int2bv %d)", w), b.S)
			}
			var sh, over string
			if op == token.SHL {
				sh = sx("bvshl", a.S, cnt)
				over = bvLit(0, w)
			} else if a.Signed {
				sh = sx("bvashr", a.S, cnt)
				over = sx("ite", sx("bvslt", a.S, bvLit(0, w)), bvLit(^uint64(0), w), bvLit(0, w))
			} else {
				sh = sx("bvlshr", a.S, cnt)
				over = bvLit(0, w)
			}
			if tooBig == "false" {
				return sh, true
			}
			return sx("ite", tooBig, over, sh), true
		}
		if b.Sort != s {
			return "", false
		}
		sg := a.Signed
		switch op {
		case token.ADD:
			return sx("bvadd", a.S, b.S), true
		case token.SUB:
			return sx("bvsub", a.S, b.S), true
		case token.MUL:
			return sx("bvmul", a.S, b.S), true
		case token.QUO:
			if sg {
				return sx("bvsdiv", a.S, b.S), true
			}
			return sx("bvudiv", a.S, b.S), true
		case token.REM:
			if sg {
				return sx("bvsrem", a.S, b.S), true
			}
			return sx("bvurem", a.S, b.S), true
		case token.AND:
			return sx("bvand", a.S, b.S), true
		case token.OR:
			return sx("bvor", a.S, b.S), true
		case token.XOR:
			return sx("bvxor", a.S, b.S), true
		case token.AND_NOT:
			return sx("bvand", a.S, sx("bvnot", b.S)), true
		case token.EQL:
			return sx("=", a.S, b.S), true
		case token.NEQ:
			return not(sx("=", a.S, b.S)), true
		case token.LSS:
			if sg {
				return sx("bvslt", a.S, b.S), true
			}
			return sx("bvult", a.S, b.S), true
		case token.LEQ:
			if sg {
				return sx("bvsle", a.S, b.S), true
			}
			return sx("bvule", a.S, b.S), true
		case token.GTR:
			if sg {
				return sx("bvsgt", a.S, b.S), true
			}
			return sx("bvugt", a.S, b.S), true
		case token.GEQ:
			if sg {
				return sx("bvsge", a.S, b.S), true
			}
			return sx("bvuge", a.S, b.S), true
		}
	case s == sInt:
		if b.Sort != sInt {
			return "", false
		}
		switch op {
		case token.ADD:
			return sx("+", a.S, b.S), true
		case token.SUB:
			return sx("-", a.S, b.S), true
		case token.MUL:
			return sx("*", a.S, b.S), true
		case token.EQL:
			return sx("=", a.S, b.S), true
		case token.NEQ:
			return not(sx("=", a.S, b.S)), true
		case token.LSS:
			return sx("<", a.S, b.S), true
		case token.LEQ:
			return sx("<=", a.S, b.S), true
		case token.GTR:
			return sx(">", a.S, b.S), true
		case token.GEQ:
			return sx(">=", a.S, b.S), true
		case token.QUO:
			// Go truncates toward zero
			return sx("ite", sx(">=", a.S, "0"), sx("div", a.S, b.S), sx("-", sx("div", sx("-", a.S), b.S))), true
		}
	case isFP(s):
		switch op {
		case token.ADD:
			return sx("fp.add", "RNE", a.S, b.S), true
		case token.SUB:
			return sx("fp.sub", "RNE", a.S, b.S), true
		case token.MUL:
			return sx("fp.mul", "RNE", a.S, b.S), true
		case token.QUO:
			return sx("fp.div", "RNE", a.S, b.S), true
		case token.EQL:
			return sx("fp.eq", a.S, b.S), true
		case token.NEQ:
			return not(sx("fp.eq", a.S, b.S)), true
		case token.LSS:
			return sx("fp.lt", a.S, b.S), true
		case token.LEQ:
			return sx("fp.leq", a.S, b.S), true
		case token.GTR:
			return sx("fp.gt", a.S, b.S), true
		case token.GEQ:
			return sx("fp.geq", a.S, b.S), true
		}
	case s == sStr:
		switch op {
		case token.EQL:
			return sx("=", a.S, b.S), true
		case token.NEQ:
			return not(sx("=", a.S, b.S)), true
		case token.LSS:
			return sx("gstr.lt", a.S, b.S), true
		case token.GTR:
			return sx("gstr.lt", b.S, a.S), true
		case token.LEQ:
			return not(sx("gstr.lt", b.S, a.S)), true
		case token.GEQ:
			return not(sx("gstr.lt", a.S, b.S)), true
		}
	case s == sSlice:
		// Go only compares slices with nil (a nil slice has region 0); specifications may compare
		// two slice values, which means identical region, offset and length
		nilS := g.zeroOfSort(sSlice, nil)
		eq := sx("=", a.S, b.S)
		if a.S == nilS || b.S == nilS {
			eq = sx("=", sx("s.reg", a.S), sx("s.reg", b.S))
		}
		switch op {
		case token.EQL:
			return eq, true
		case token.NEQ:
			return not(eq), true
		}
	default:
		if a.Sort == b.Sort {
			switch op {
			case token.EQL:
				return sx("=", a.S, b.S), true
			case token.NEQ:
				return not(sx("=", a.S, b.S)), true
			}
		}
	}
	return "", false
}

func (g *gen) doConvert(x *ssa.Convert) {
	v := g.operand(x.X)
	s, sg := g.sortOf(x.Type())
	t, ok := g.convert(v, s, sg)
	if !ok {
		r := g.freshVal(x)
		// string <-> []byte keep the length
		if s == sStr && v.Sort == sSlice {
			g.assume(sx("=", sx("gstr.len", r.S), sx("s.len", v.S)))
		} else if s == sSlice && v.Sort == sStr {
			g.assume(sx("=", sx("s.len", r.S), sx("gstr.len", v.S)))
		} else {
			g.unmodelled("conversion "+v.Sort+" -> "+s, x.Pos())
		}
		return
	}
	g.setVal(x, t)
}

func (g *gen) convert(v T, s string, sg bool) (string, bool) {
	if v.Sort == s {
		return v.S, true
	}
	switch {
	case isBV(v.Sort) && isBV(s):
		fw, tw := bvWidth(v.Sort), bvWidth(s)
		switch {
		case tw == fw:
			return v.S, true
		case tw < fw:
			return sx(fmt.Sprintf("(_ extract %d 0)", tw-1), v.S), true
		case v.Signed:
			return sx(fmt.Sprintf("(_ sign_extend %d)", tw-fw), v.S), true
		default:
			return sx(fmt.Sprintf("(_ zero_extend %d)", tw-fw), v.S), true
		}
	case isBV(v.Sort) && s == sInt:
		w := bvWidth(v.Sort)
		if v.Signed {
			return sx("ite", sx("bvslt", v.S, bvLit(0, w)), sx("-", sx("bv2nat", v.S), new(bigPow).pow2(w)), sx("bv2nat", v.S)), true
		}
		return sx("bv2nat", v.S), true
	case v.Sort == sInt && isBV(s):
		return sx(fmt.Sprintf("(_ int2bv %d)", bvWidth(s)), v.S), true
	case isBV(v.Sort) && isFP(s):
		eb, sb := fpBits(s)
		if v.Signed {
			return sx(fmt.Sprintf("(_ to_fp %d %d)", eb, sb), "RNE", v.S), true
		}
		return sx(fmt.Sprintf("(_ to_fp_unsigned %d %d)", eb, sb), "RNE", v.S), true
	case isFP(v.Sort) && isFP(s):
		eb, sb := fpBits(s)
		return sx(fmt.Sprintf("(_ to_fp %d %d)", eb, sb), "RNE", v.S), true
	case isFP(v.Sort) && isBV(s):
		if sg {
			return sx(fmt.Sprintf("(_ fp.to_sbv %d)", bvWidth(s)), "RTZ", v.S), true
		}
		return sx(fmt.Sprintf("(_ fp.to_ubv %d)", bvWidth(s)), "RTZ", v.S), true
	}
	return "", false
}

func fpBits(s string) (int, int) {
	var e, m int
	fmt.Sscanf(s, "(_ FloatingPoint %d %d)", &e, &m)
	return e, m
}

func (g *gen) doSlice(x *ssa.Slice) {
	var lo, hi string
	if x.Low != nil {
		lo = g.toIdx(g.operand(x.Low))
	} else {
		lo = g.idxLit(0)
	}
	switch u := x.X.Type().Underlying().(type) {
	case *types.Slice:
		s := g.operand(x.X).S
		if x.High != nil {
			hi = g.toIdx(g.operand(x.High))
		} else {
			hi = sx("s.len", s)
		}
		if g.noPanic() {
			g.oblige("nopanic", g.npName("slice"), "slice bounds in range (high bound checked against len, not cap)",
				and(g.idxLe(g.idxLit(0), lo), g.idxLe(lo, hi), g.idxLe(hi, sx("s.len", s))), x.Pos())
		}
		g.setVal(x, sx("mk-slice", sx("s.reg", s), g.idxAdd(sx("s.off", s), lo), g.idxSub(hi, lo)))
	case *types.Pointer:
		a := u.Elem().Underlying().(*types.Array)
		p := g.operand(x.X).S
		if x.High != nil {
			hi = g.toIdx(g.operand(x.High))
		} else {
			hi = g.idxLit(a.Len())
		}
		if g.noPanic() && (x.Low != nil || x.High != nil) {
			g.oblige("nopanic", g.npName("slice"), "slice bounds in range",
				and(g.idxLe(g.idxLit(0), lo), g.idxLe(lo, hi), g.idxLe(hi, g.idxLit(a.Len()))), x.Pos())
		}
		g.setVal(x, sx("mk-slice", p, lo, g.idxSub(hi, lo)))
	case *types.Basic: // string
		s := g.operand(x.X).S
		if x.High != nil {
			hi = g.toIdx(g.operand(x.High))
		} else {
			hi = sx("gstr.len", s)
		}
		if g.noPanic() {
			g.oblige("nopanic", g.npName("slice"), "string slice bounds in range",
				and(g.idxLe(g.idxLit(0), lo), g.idxLe(lo, hi), g.idxLe(hi, sx("gstr.len", s))), x.Pos())
		}
		r := g.freshVal(x)
		g.assume(sx("=", sx("gstr.len", r.S), g.idxSub(hi, lo)))
	default:
		g.freshVal(x)
	}
}

// ---------------------------------------------------------------- builtins

func (g *gen) doBuiltin(x *ssa.Call, b *ssa.Builtin) {
	args := x.Call.Args
	switch b.Name() {
	case "len":
		a := g.operand(args[0])
		switch a.Sort {
		case sSlice:
			g.setVal(x, sx("s.len", a.S))
		case sStr:
			g.setVal(x, sx("gstr.len", a.S))
		default:
			if arr, ok := args[0].Type().Underlying().(*types.Array); ok {
				g.setVal(x, g.idxLit(arr.Len()))
				return
			}
			if mt, ok := args[0].Type().Underlying().(*types.Map); ok {
				// the size of a map is a function of its key set
				_, hc, ks, _ := g.mapComps(mt)
				r := g.setVal(x, sx(g.mapLenFn(ks), sx("select", g.comp(hc, ""), a.S)))
				g.assume(g.idxLe(g.idxLit(0), r.S))
				return
			}
			r := g.freshVal(x)
			g.assume(g.idxLe(g.idxLit(0), r.S))
		}
	case "cap":
		a := g.operand(args[0])
		r := g.freshVal(x)
		if a.Sort == sSlice {
			g.assume(g.idxLe(sx("s.len", a.S), r.S))
		}
	case "append":
		g.doAppend(x)
	case "copy":
		g.unmodelled("copy", x.Pos())
		g.freshVal(x)
		g.havocHeap("copy")
	case "panic":
		g.exitReach[g.curBlock] = "false"
	case "delete":
		if mt, ok := args[0].Type().Underlying().(*types.Map); ok {
			_, hc, _, _ := g.mapComps(mt)
			m, k := g.operand(args[0]), g.operand(args[1])
			ch := g.comp(hc, "")
			g.setComp(hc, sx("store", ch, m.S, sx("store", sx("select", ch, m.S), k.S, "false")))
		}
	case "print", "println", "close", "clear":
		if b.Name() == "clear" {
			g.unmodelled(b.Name(), x.Pos())
		}
	case "min", "max":
		a, c := g.operand(args[0]), g.operand(args[1])
		lt, ok := g.binop(token.LSS, a, c)
		if !ok || len(args) != 2 {
			g.freshVal(x)
			return
		}
		if b.Name() == "min" {
			g.setVal(x, sx("ite", lt, a.S, c.S))
		} else {
			g.setVal(x, sx("ite", lt, c.S, a.S))
		}
	default:
		g.freshVal(x)
		g.unmodelled("builtin "+b.Name(), x.Pos())
	}
}

// constLenOfSlice: if v is `slice arr[:]` of a fixed array (varargs), its constant length.
func constLenOfSlice(v ssa.Value) (int64, bool) {
	s, ok := v.(*ssa.Slice)
	if !ok || s.Low != nil || s.High != nil {
		return 0, false
	}
	p, ok := s.X.Type().Underlying().(*types.Pointer)
	if !ok {
		return 0, false
	}
	a, ok := p.Elem().Underlying().(*types.Array)
	if !ok {
		return 0, false
	}
	return a.Len(), true
}

// append(s, t...): under A3 the result lives in a fresh region whose contents are the old
// contents of s followed by t.
func (g *gen) doAppend(x *ssa.Call) {
	args := x.Call.Args
	s := g.operand(args[0])
	st := x.Type().Underlying().(*types.Slice)
	es, _ := g.sortOf(st.Elem())
	h := g.heapSlice(es)
	base := sx("select", g.comp(h, ""), sx("s.reg", s.S))
	end := g.define("end", g.idx, g.idxAdd(sx("s.off", s.S), sx("s.len", s.S)))
	addr := g.allocAddrNew()
	if len(args) == 1 {
		g.setVal(x, s.S)
		return
	}
	t := g.operand(args[1])
	if t.Sort == sStr {
		// append([]byte, string...): contents of the tail are opaque (gstr.at)
		n := sx("gstr.len", t.S)
		c := g.declConst("app", fmt.Sprintf("(Array %s %s)", g.idx, es))
		g.assume(fmt.Sprintf("(forall ((k! %s)) (! (=> %s (= (select %s k!) (select %s k!))) :pattern ((select %s k!))))", g.idx, g.idxLt("k!", end), c, base, c))
		g.assume(fmt.Sprintf("(forall ((k! %s)) (! (=> (and %s %s) (= (select %s %s) (gstr.at %s k!))) :pattern ((gstr.at %s k!))))", g.idx,
			g.idxLe(g.idxLit(0), "k!"), g.idxLt("k!", n), c, g.idxAdd(end, "k!"), t.S, t.S))
		g.setComp(h, sx("store", g.comp(h, ""), addr, c))
		g.setVal(x, sx("mk-slice", addr, sx("s.off", s.S), g.idxAdd(sx("s.len", s.S), n)))
		return
	}
	tbase := sx("select", g.comp(h, ""), sx("s.reg", t.S))
	if n, ok := constLenOfSlice(args[1]); ok && n <= 32 {
		c := base
		for k := int64(0); k < n; k++ {
			c = sx("store", c, g.idxAdd(end, g.idxLit(k)), sx("select", tbase, g.idxAdd(sx("s.off", t.S), g.idxLit(k))))
		}
		g.setComp(h, sx("store", g.comp(h, ""), addr, c))
		g.setVal(x, sx("mk-slice", addr, sx("s.off", s.S), g.idxAdd(sx("s.len", s.S), g.idxLit(n))))
		return
	}
	// symbolic tail length: quantified copy axioms
	c := g.declConst("app", fmt.Sprintf("(Array %s %s)", g.idx, es))
	tb := g.define("tb", fmt.Sprintf("(Array %s %s)", g.idx, es), tbase)
	bb := g.define("bb", fmt.Sprintf("(Array %s %s)", g.idx, es), base)
	g.assume(fmt.Sprintf("(forall ((k! %s)) (! (=> %s (= (select %s k!) (select %s k!))) :pattern ((select %s k!))))", g.idx, g.idxLt("k!", end), c, bb, c))
	toff := g.define("toff", g.idx, sx("s.off", t.S))
	g.assume(fmt.Sprintf("(forall ((k! %s)) (! (=> (and %s %s) (= (select %s k!) (select %s %s))) :pattern ((select %s k!))))", g.idx,
		g.idxLe(end, "k!"), g.idxLt("k!", g.idxAdd(end, sx("s.len", t.S))), c, tb, g.idxAdd(toff, g.idxSub("k!", end)), c))
	g.setComp(h, sx("store", g.comp(h, ""), addr, c))
	g.setVal(x, sx("mk-slice", addr, sx("s.off", s.S), g.idxAdd(sx("s.len", s.S), sx("s.len", t.S))))
}

// ---------------------------------------------------------------- calls

func (g *gen) calleeName(c *ssa.CallCommon) (full string, short string) {
	if c.IsInvoke() {
		recv := c.Value.Type()
		full = "(" + g.w.typeKey(recv) + ")." + c.Method.Name()
		return full, c.Method.Name()
	}
	if fn := c.StaticCallee(); fn != nil {
		// closures / anonymous functions
		full = g.w.keyOf(fn)
		short = fn.Name()
		if i := strings.Index(short, "["); i > 0 && fn.Signature.Recv() != nil {
			short = short[:i]
		}
		return
	}
	return "dynamic", "dynamic"
}

func (g *gen) event(kind string, c *ssa.CallCommon, pos token.Pos) {
	full, _ := g.calleeName(c)
	g.events = append(g.events, kind+":"+full)
}

// callMods reports which components a call may modify: (listed comps, havocAllHeap)
func (g *gen) callMods(ci ssa.CallInstruction) ([]string, bool) {
	c := ci.Common()
	if b, ok := c.Value.(*ssa.Builtin); ok {
		switch b.Name() {
		case "append":
			st := ci.(ssa.Value).Type().Underlying().(*types.Slice)
			es, _ := g.sortOf(st.Elem())
			return []string{g.heapSlice(es), "nalloc"}, false
		case "copy":
			return nil, true
		}
		return nil, false
	}
	full, _ := g.calleeName(c)
	if g.w.intrinsic(full) {
		return nil, false
	}
	ct := g.w.contractFor(full, g.unit)
	var mods []string
	if g.unit.ErrFlow && (ct == nil || !ct.NoDefault) {
		mods = append(mods, "G.failed")
	}
	if ct == nil {
		return mods, true
	}
	all := false
	for _, m := range ct.Modifies {
		switch {
		case m == "heap":
			all = true
		case strings.HasSuffix(m, "[*]"):
			// element type of the parameter: find by name
			all = all || !g.modSliceComp(ct, c, m, &mods)
		default:
			mods = append(mods, "G."+m)
		}
	}
	return mods, all
}

func (g *gen) modSliceComp(ct *Contract, c *ssa.CallCommon, m string, mods *[]string) bool {
	pn := strings.TrimSuffix(m, "[*]")
	names := g.w.paramNames(ct, c)
	for i, n := range names {
		if n == pn && i < len(c.Args)+1 {
			args := g.callArgs(c)
			if i < len(args) {
				if st, ok := args[i].Type().Underlying().(*types.Slice); ok {
					es, _ := g.sortOf(st.Elem())
					*mods = append(*mods, g.heapSlice(es))
					return true
				}
			}
		}
	}
	return false
}

// callArgs: receiver (for invoke) followed by arguments
func (g *gen) callArgs(c *ssa.CallCommon) []ssa.Value {
	if c.IsInvoke() {
		return append([]ssa.Value{c.Value}, c.Args...)
	}
	return c.Args
}

func (g *gen) doCall(x *ssa.Call) {
	c := &x.Call
	if b, ok := c.Value.(*ssa.Builtin); ok {
		g.doBuiltin(x, b)
		return
	}
	full, short := g.calleeName(c)
	ord := g.srcOrd[x]
	if ord == 0 {
		g.callOrd[full]++
		ord = 1000 + g.callOrd[full]
	}
	if g.doIntrinsic(x, full) {
		return
	}
	ct := g.w.contractFor(full, g.unit)
	g.applyCall(x, c, full, short, ord, ct, x.Pos())
}

// applyCall: modular call rule.  With a contract: assert requires, havoc modifies, assume ensures.
// Without: results fresh, escaping heap havocked, unit default effects applied.
func (g *gen) applyCall(val ssa.Value, c *ssa.CallCommon, full, short string, ord int, ct *Contract, pos token.Pos) {
	args := g.callArgs(c)
	var argT []T
	for _, a := range args {
		argT = append(argT, g.operand(a))
	}
	if g.callArgsRec == nil {
		g.callArgsRec = map[string][]T{}
	}
	g.callArgsRec[fmt.Sprintf("%s#%d", short, ord)] = argT
	if g.callReach == nil {
		g.callReach = map[string]string{}
	}
	if g.callBlock == nil {
		g.callBlock = map[string]*ssa.BasicBlock{}
	}
	g.callReach[fmt.Sprintf("%s#%d", short, ord)] = g.curReach
	g.callBlock[fmt.Sprintf("%s#%d", short, ord)] = g.curBlock
	if q := qualShort(full); q != "" {
		g.callArgsRec[fmt.Sprintf("%s#%d", q, ord)] = argT
		g.callReach[fmt.Sprintf("%s#%d", q, ord)] = g.curReach
		g.callBlock[fmt.Sprintf("%s#%d", q, ord)] = g.curBlock
	}
	// in-body assertions anchored before this call
	g.anchoredAsserts(full, short, ord, false, nil, argT, pos)

	pre := map[string]string{}
	for k, v := range g.cur {
		pre[k] = v
	}
	for _, cname := range g.compList {
		if _, ok := pre[cname]; !ok {
			pre[cname] = g.compDef[cname]
		}
	}
	var names []string
	if ct != nil && ct.Kind == "func" && g.fn != nil && g.fn.Pkg != nil && ct.Pkg != g.fn.Pkg.Pkg.Path() {
		for _, sp := range g.w.prog.AllPackages() {
			if sp.Pkg.Path() == ct.Pkg {
				g.specPkg = sp.Pkg
			}
		}
		defer func() { g.specPkg = nil }()
	}
	if ct != nil {
		if ct.Kind == "extern" {
			g.noteExtern(ct)
		}
		names = g.w.paramNames(ct, c)
		e := &env{g: g, vars: map[string]T{}, state: pre, old: pre}
		for i, n := range names {
			if i < len(argT) && n != "" && n != "_" {
				e.vars[n] = argT[i]
			}
		}
		for i, rq := range ct.Requires {
			if t, ok := g.foreignClause(e, ct, rq); ok {
				g.oblige("requires", fmt.Sprintf("call#%d@%s.requires[%d]", ord, short, i+1), rq.Text, t, pos)
			}
		}
	} else if g.unit.Strict {
		g.unmodelled("call to uncontracted "+full, pos)
	} else {
		g.uncontracted = append(g.uncontracted, full)
	}
	// havoc
	mods, all := g.callModsCommon(c, ct, val)
	if all {
		g.havocHeap("call " + full)
	}
	for _, m := range mods {
		if m == "G.failed" && ct != nil && ct.NoDefault {
			continue
		}
		if strings.HasPrefix(m, "H") && all {
			continue
		}
		if m == "G.failed" {
			continue // handled by the default effect below
		}
		old := g.comp(m, "")
		nw := g.declConst(strings.ReplaceAll(m, "@", "_")+".c", g.compSort[m])
		g.cur[m] = nw
		if strings.HasPrefix(m, "HS.") && ct != nil {
			// only the listed slice parameters' elements change
			g.assume(g.sliceFrame(ct, names, argT, old, nw))
		}
	}
	if !all {
		oldn := g.nalloc()
		nn := g.declConst("nalloc.c", sInt)
		g.assume(sx(">=", nn, oldn))
		g.cur["nalloc"] = nn
	}
	// results
	var res []T
	if val != nil {
		sig := c.Signature()
		if ct != nil && ct.Pure {
			res = g.pureResults(full, sig, argT)
			g.bindResults(val, res)
		} else {
			g.freshVal(val)
			if tup, ok := g.tuples[val]; ok {
				res = tup
			} else if sig.Results().Len() == 1 {
				res = []T{g.vals[val]}
			}
		}
		for _, r := range res {
			switch r.Sort {
			case sSlice:
				g.assume(sx("<", sx("s.reg", r.S), g.nalloc()))
			}
		}
	}
	// default effect of protocol units: failed' = failed || err != nil (unless tolerated)
	var errRes *T
	if len(res) > 0 && res[len(res)-1].Sort == sErr {
		errRes = &res[len(res)-1]
	}
	if g.unit.ErrFlow && (ct == nil || !ct.NoDefault) && val != nil {
		if errRes != nil {
			cond := not(sx("=", errRes.S, "errnil"))
			if tol := g.tolerated(full, short, ord); tol != nil {
				tol.Used = true
				if tol.When != nil {
					e := &env{g: g, vars: map[string]T{"e": *errRes, "err": *errRes}, state: g.cur, old: pre}
					for k, v := range g.params {
						if _, ok := e.vars[k]; !ok {
							e.vars[k] = v
						}
					}
					cond = and(cond, not(g.specBool(e, tol.When)))
				} else {
					cond = "false"
				}
			}
			if cond != "false" {
				g.comp("G.failed", sBool)
				g.setComp("G.failed", or(g.comp("G.failed", ""), cond))
			}
		}
	}
	// assume ensures
	if ct != nil {
		e := &env{g: g, vars: map[string]T{}, state: g.cur, old: pre}
		for i, n := range names {
			if i < len(argT) && n != "" && n != "_" {
				e.vars[n] = argT[i]
			}
		}
		rn := ct.Results
		for i, r := range res {
			if i < len(rn) {
				e.vars[rn[i]] = r
			}
			e.vars[fmt.Sprintf("r%d", i)] = r
		}
		if len(res) == 1 {
			e.vars["result"] = res[0]
		}
		if errRes != nil {
			e.vars["errResult"] = *errRes
		}
		e.assuming = true
		for _, en := range ct.Ensures {
			if bodyInternal(en.Text) {
				continue // refers to calls or loops inside the callee: verified there, not visible to callers
			}
			if t, ok := g.foreignClause(e, ct, en); ok {
				g.assume(implies(g.curReach, t))
			}
		}
		if ct.Fresh && len(res) > 0 && res[0].Sort == sSlice {
			g.assume(implies(g.curReach, sx(">=", sx("s.reg", res[0].S), pre["nalloc"])))
		}
	}
	if g.callResults == nil {
		g.callResults = map[string][]T{}
	}
	g.callResults[fmt.Sprintf("%s#%d", short, ord)] = res
	if q := qualShort(full); q != "" {
		g.callResults[fmt.Sprintf("%s#%d", q, ord)] = res
	}
	g.anchoredAsserts(full, short, ord, true, res, argT, pos)
}

func (g *gen) bindResults(val ssa.Value, res []T) {
	if _, ok := val.Type().(*types.Tuple); ok {
		g.tuples[val] = res
		g.vals[val] = T{S: "TUPLE", Sort: "TUPLE"}
		return
	}
	if len(res) == 1 {
		g.vals[val] = res[0]
	}
}

// pureResults: results are uninterpreted functions of the arguments
func (g *gen) pureResults(full string, sig *types.Signature, args []T) []T {
	var res []T
	for i := 0; i < sig.Results().Len(); i++ {
		rt := sig.Results().At(i).Type()
		s, sgn := g.sortOf(rt)
		fn := fmt.Sprintf("pure.%s.%d", mangle(full), i)
		var as, ss []string
		for _, a := range args {
			as = append(as, a.S)
			ss = append(ss, a.Sort)
			g.ensureSort(a.Sort)
		}
		g.ensureSort(s)
		g.declare(fn+strings.Join(ss, ","), fmt.Sprintf("(declare-fun %s (%s) %s)", fn, strings.Join(ss, " "), s))
		term := fn
		if len(as) > 0 {
			term = sx(fn, as...)
		}
		n := g.define("pr", s, term)
		res = append(res, T{S: n, Sort: s, Signed: sgn, GoT: rt})
	}
	return res
}

func (g *gen) callModsCommon(c *ssa.CallCommon, ct *Contract, val ssa.Value) ([]string, bool) {
	var mods []string
	if ct == nil {
		return mods, true
	}
	all := false
	for _, m := range ct.Modifies {
		switch {
		case m == "heap":
			all = true
		case strings.HasSuffix(m, "[*]"):
			if !g.modSliceComp(ct, c, m, &mods) {
				all = true
			}
		default:
			found := false
			for _, gh := range g.unit.Ghosts {
				if gh.Name == m {
					found = true
				}
			}
			if found {
				mods = append(mods, "G."+m)
			} else {
				g.warn("modifies target %s of %s is not a ghost of unit %s", m, ct.FullKey, g.unit.Name)
			}
		}
	}
	return mods, all
}

// sliceFrame: new heap component equals old except inside the listed slice arguments
func (g *gen) sliceFrame(ct *Contract, names []string, argT []T, old, nw string) string {
	var excl []string
	for _, m := range ct.Modifies {
		if !strings.HasSuffix(m, "[*]") {
			continue
		}
		pn := strings.TrimSuffix(m, "[*]")
		for i, n := range names {
			if n == pn && i < len(argT) && argT[i].Sort == sSlice {
				p := argT[i].S
				excl = append(excl, and(sx("=", "r!", sx("s.reg", p)), g.idxLe(sx("s.off", p), "i!"), g.idxLt("i!", g.idxAdd(sx("s.off", p), sx("s.len", p)))))
			}
		}
	}
	return fmt.Sprintf("(forall ((r! Int) (i! %s)) (! (=> (not %s) (= (select (select %s r!) i!) (select (select %s r!) i!))) :pattern ((select (select %s r!) i!))))",
		g.idx, or(excl...), nw, old, nw)
}

func (g *gen) tolerated(full, short string, ord int) *Tolerate {
	if g.ct == nil {
		return nil
	}
	for _, t := range g.ct.Tolerates {
		if (t.Callee == short || t.Callee == full || g.w.shortKey(full) == t.Callee) && (t.Ord == 0 || t.Ord == ord) {
			return t
		}
	}
	return nil
}

func (g *gen) anchoredAsserts(full, short string, ord int, after bool, res []T, args []T, pos token.Pos) {
	if g.ct == nil {
		return
	}
	k := 0
	for _, a := range g.ct.Asserts {
		if a.After != after || a.Ord != ord || !(a.Callee == short || a.Callee == full || g.w.shortKey(full) == a.Callee) {
			continue
		}
		k++
		i := k - 1
		a.Used = true
		e := &env{g: g, vars: map[string]T{}, state: g.cur, old: g.initState()}
		for k, v := range g.params {
			e.vars[k] = v
		}
		for n, t := range g.loopVars(g.curBlock, nil) {
			e.vars[n] = t
		}
		for _, blk := range append(g.domChain(g.curBlock), g.curBlock) {
			for n, t := range g.debugVars[blk] {
				e.vars[n] = t
			}
		}
		for j, r := range res {
			e.vars[fmt.Sprintf("r%d", j)] = r
		}
		for j, a := range args {
			e.vars[fmt.Sprintf("arg%d", j)] = a
		}
		when := "before"
		if after {
			when = "after"
		}
		g.oblige("assert", fmt.Sprintf("assert[%d]@%s.call#%d.%s", i+1, when, ord, a.Callee), a.Cl.Text, g.specBool(e, a.Cl), pos)
	}
}

// ---------------------------------------------------------------- defer

func (g *gen) doDeferReg(d *ssa.Defer) {
	c := &d.Call
	full, short := g.calleeName(c)
	key := "defer " + full
	g.callOrd[key]++
	// a registration event: contract looked up under "defer <callee>"
	ct := g.w.contractFor(key, g.unit)
	if ct != nil {
		g.applyCall(nil, c, key, "defer "+short, g.callOrd[key], ct, d.Pos())
	}
}

func (g *gen) doRunDefers(x *ssa.RunDefers) {
	// Deferred closures of this function that may write captured variables: havoc the heap
	// (named results live in cells); deferred calls to other functions: no effect on the tracked
	// state unless they carry a contract under "rundefer <callee>".
	for i := len(g.defers) - 1; i >= 0; i-- {
		d := g.defers[i]
		full, short := g.calleeName(&d.Call)
		key := "rundefer " + full
		ct := g.w.contractFor(key, g.unit)
		if ct != nil {
			g.callOrd[key]++
			g.applyCall(nil, &d.Call, key, "rundefer "+short, g.callOrd[key], ct, x.Pos())
			continue
		}
		if mc, ok := d.Call.Value.(*ssa.MakeClosure); ok {
			fn := mc.Fn.(*ssa.Function)
			writes := false
			for k := range mc.Bindings {
				if !g.freeVarReadOnly(fn.FreeVars[k], map[ssa.Value]bool{}) {
					writes = true
				}
			}
			if writes {
				g.runDeferredClosure(mc, fn)
			}
		}
	}
}

func (g *gen) npName(op string) string {
	if g.npOrd == nil {
		g.npOrd = map[string]int{}
	}
	g.npOrd[op]++
	return fmt.Sprintf("nopanic.%s#%d", op, g.npOrd[op])
}

func (g *gen) noteExtern(ct *Contract) {
	s := "assumed contract (extern) " + ct.Key
	for _, e := range g.usedExterns {
		if e == s {
			return
		}
	}
	g.usedExterns = append(g.usedExterns, s)
}

// runDeferredClosure: effect of a deferred closure that writes captured variables.  Captured cells
// of error type into which the closure only ever stores non-nil values (error constructors,
// boxed concrete values) keep their non-nil-ness: new == old || new != nil.  Every other written
// cell is havocked; if the closure passes a captured address on, the whole heap is.
func (g *gen) runDeferredClosure(mc *ssa.MakeClosure, fn *ssa.Function) {
	for k, bnd := range mc.Bindings {
		fv := fn.FreeVars[k]
		if g.freeVarReadOnly(fv, map[ssa.Value]bool{}) {
			continue
		}
		pt, ok := fv.Type().Underlying().(*types.Pointer)
		refs := fv.Referrers()
		simple := ok && refs != nil
		nonNil := true
		if simple {
			for _, r := range *refs {
				switch x := r.(type) {
				case *ssa.Store:
					if x.Addr != ssa.Value(fv) {
						simple = false
					} else if !g.definitelyNonNilErr(x.Val) {
						nonNil = false
					}
				case *ssa.UnOp, *ssa.DebugRef:
				default:
					simple = false
				}
			}
		}
		if !simple {
			g.havocHeap("deferred closure " + fn.Name())
			g.warn("deferred closure %s passes captured variables on: heap havocked at return", fn.Name())
			return
		}
		addr := g.operand(bnd).S
		old := g.loadAt(addr, pt.Elem())
		nw := g.freshOfType(pt.Elem(), "dfr."+mangle(fv.Name()))
		if nw.Sort == sErr && nonNil {
			g.assume(or(sx("=", nw.S, old), not(sx("=", nw.S, "errnil"))))
		}
		g.storeAt(addr, pt.Elem(), nw.S)
	}
}

// bodyInternal: the clause mentions calls, loops or locals of the function body it belongs to
func bodyInternal(text string) bool {
	for _, k := range []string{"res(", "callarg(", "exhausted(", "called(", "rangeindex", "rangeslice"} {
		if strings.Contains(text, k) {
			return true
		}
	}
	return false
}

func (g *gen) definitelyNonNilErr(v ssa.Value) bool {
	switch x := v.(type) {
	case *ssa.MakeInterface:
		return true
	case *ssa.Call:
		full, _ := g.calleeName(&x.Call)
		if ct := g.w.contractFor(full, g.unit); ct != nil {
			for _, en := range ct.Ensures {
				t := strings.ReplaceAll(en.Text, " ", "")
				if t == "e!=nil" || t == "errResult!=nil" {
					return true
				}
			}
		}
		if full == "errors.Join" || full == "errors.New" || full == "fmt.Errorf" {
			// Join of anything with a non-nil is non-nil only if some argument is; be conservative
			return full != "errors.Join"
		}
	}
	return false
}

// doTypeAssert: interface values carry a dynamic type tag (itag) and their boxed content.
func (g *gen) doTypeAssert(x *ssa.TypeAssert) {
	v := g.operand(x.X)
	if v.Sort != sIface {
		g.unmodelled("type assertion on "+v.Sort, x.Pos())
		g.freshVal(x)
		return
	}
	ts, tsg := g.sortOf(x.AssertedType)
	g.declare("itag", "(declare-fun itag (Iface) Int)")
	var ok, val string
	if _, isIface := x.AssertedType.Underlying().(*types.Interface); isIface {
		// to another interface type: succeeds or not (method sets are not modelled); the value is kept
		okc := g.declConst("taok", sBool)
		g.assume(implies(okc, not(sx("=", v.S, "ifnil"))))
		ok = okc
		if ts == sIface {
			val = v.S
		} else {
			val = g.freshOfType(x.AssertedType, "ta").S
		}
	} else {
		g.ensureSort(ts)
		fn := "box." + sortID(ts)
		g.declare(fn, fmt.Sprintf("(declare-fun %s (%s) Iface)\n(declare-fun un%s (Iface) %s)", fn, ts, fn, ts))
		ok = g.define("taok", sBool, and(not(sx("=", v.S, "ifnil")), sx("=", sx("itag", v.S), fmt.Sprint(g.w.typeID(x.AssertedType)))))
		val = sx("un"+fn, v.S)
	}
	if ts == sPtr {
		g.assume(implies(ok, and(sx("<=", "0", val), sx("<", val, g.nalloc()))))
	}
	if ts == sSlice {
		g.assume(implies(ok, g.wfSlice(val))) // every slice value, boxed or not, is well formed
	}
	if x.CommaOk {
		vt := T{S: g.define("ta", ts, sx("ite", ok, val, g.zeroOfSort(ts, x.AssertedType))), Sort: ts, Signed: tsg, GoT: x.AssertedType}
		g.tuples[x] = []T{vt, {S: ok, Sort: sBool}}
		g.vals[x] = T{S: "TUPLE", Sort: "TUPLE"}
		return
	}
	if g.noPanic() {
		g.oblige("nopanic", g.npName("typeassert"), "type assertion succeeds", ok, x.Pos())
	}
	// execution continues past a single-result type assertion only when it succeeded
	g.assume(implies(g.curReach, ok))
	g.vals[x] = T{S: g.define("ta", ts, val), Sort: ts, Signed: tsg, GoT: x.AssertedType}
}

// foreignClause translates a clause of a callee's contract in the caller.  A clause of a contract
// from another unit that speaks about ghost state the caller's unit does not have cannot be expressed
// here and is skipped (it was discharged where the callee was verified).
func (g *gen) foreignClause(e *env, ct *Contract, c *Clause) (t string, ok bool) {
	if ct.Unit == g.unit {
		return g.specBool(e, c), true
	}
	defer func() {
		if r := recover(); r != nil {
			if se, isSE := r.(specErr); isSE && (strings.Contains(se.msg, "unknown identifier") || strings.Contains(se.msg, "unknown function")) {
				g.warn("clause %q of %s not expressible in unit %s: skipped", c.Text, ct.FullKey, g.unit.Name)
				t, ok = "", false
				return
			}
			panic(r)
		}
	}()
	return g.specBool(e, c), true
}

// qualShort: "(*pkg.T).M" / "(pkg.T[…]).M" -> "T.M" (receiver-qualified short name, to tell apart
// methods of the same name on different types in res()/callarg())
func qualShort(full string) string {
	if !strings.HasPrefix(full, "(") {
		return ""
	}
	j := strings.Index(full, ").")
	if j < 0 {
		return ""
	}
	recv := strings.TrimPrefix(full[1:j], "*")
	targ := ""
	if k := strings.Index(recv, "["); k > 0 {
		// keep the last segment of the type argument: Option[Identity]
		targ = strings.TrimSuffix(recv[k+1:], "]")
		if d := strings.LastIndex(targ, "."); d >= 0 {
			targ = targ[d+1:]
		}
		targ = "[" + strings.TrimPrefix(targ, "*") + "]"
		recv = recv[:k]
	}
	if k := strings.LastIndex(recv, "."); k >= 0 {
		recv = recv[k+1:]
	}
	return recv + targ + "." + full[j+2:]
}

// lookupCall: exact key, else the unique recorded key "name[…]#ord" (instances of generic functions)
func lookupCall(m map[string][]T, name string, ord int64) ([]T, bool) {
	if v, ok := m[fmt.Sprintf("%s#%d", name, ord)]; ok {
		return v, true
	}
	var found []T
	n := 0
	suffix := fmt.Sprintf("#%d", ord)
	for k, v := range m {
		if strings.HasPrefix(k, name+"[") && strings.HasSuffix(k, suffix) {
			found = v
			n++
		}
	}
	return found, n == 1
}


// boxFns declares and returns the boxing function of a dynamic type (per type: box.<sort>.t<typeID>) and the
// unboxing function of its sort (per sort: unbox.<sort>).
func (g *gen) boxFns(sort string, t types.Type) (string, string) {
	base := "box." + sortID(sort)
	g.declare(base, fmt.Sprintf("(declare-fun %s (%s) Iface)\n(declare-fun un%s (Iface) %s)", base, sort, base, sort))
	if t == nil {
		return base, "un" + base
	}
	fn := fmt.Sprintf("%s.t%d", base, g.w.typeID(t))
	g.declare(fn, fmt.Sprintf("(declare-fun %s (%s) Iface)", fn, sort))
	return fn, "un" + base
}
