package main

import (
	"encoding/json"
	"os"
	"fmt"
	"go/token"
	"go/types"
	"path/filepath"
	"sort"
	"strings"

	"golang.org/x/tools/go/packages"
	"golang.org/x/tools/go/ssa"
	"golang.org/x/tools/go/ssa/ssautil"
)

const modPath = "github.com/sourcenetwork/defradb"

type World struct {
	repo      string
	fset      *token.FileSet
	prog      *ssa.Program
	pkgs      map[string]*ssa.Package
	tpkgs     map[string]*packages.Package
	cs        *ContractSet
	loopHeads map[*ssa.BasicBlock]*loopHead
	specInsts map[*gen]map[string]*specInst
	lemmaPkg  *types.Package
	funcsByKey map[string]*ssa.Function
	curUnit    *Unit
	typeIDs    map[string]int
}

func (w *World) pos(p token.Pos) string {
	if p == token.NoPos {
		return "?"
	}
	pp := w.fset.Position(p)
	rel, err := filepath.Rel(w.repo, pp.Filename)
	if err != nil {
		rel = pp.Filename
	}
	return fmt.Sprintf("%s:%d", rel, pp.Line)
}

// shortPos: a position label that survives unrelated edits poorly (line based) — used only in
// names of auto-generated safety obligations, which are matched by ordinal when locked.
func (w *World) shortPos(p token.Pos) string {
	if p == token.NoPos {
		return "?"
	}
	pp := w.fset.Position(p)
	return fmt.Sprintf("L%d.%d", pp.Line, pp.Column)
}

func LoadWorld(repo string, pkgDirs []string) (*World, error) {
	w := &World{repo: repo, pkgs: map[string]*ssa.Package{}, tpkgs: map[string]*packages.Package{}, loopHeads: map[*ssa.BasicBlock]*loopHead{},
		specInsts: map[*gen]map[string]*specInst{}, funcsByKey: map[string]*ssa.Function{}}
	w.fset = token.NewFileSet()
	cfg := &packages.Config{Mode: packages.LoadSyntax, Dir: repo, BuildFlags: []string{"-tags=verif"}, Fset: w.fset}
	if ov := os.Getenv("GOVC_OVERLAY"); ov != "" {
		// same format as go build -overlay: {"Replace": {"/repo/x.go": "/scratch/x.go"}}
		data, err := os.ReadFile(ov)
		if err != nil {
			return nil, err
		}
		var o struct{ Replace map[string]string }
		if err := json.Unmarshal(data, &o); err != nil {
			return nil, err
		}
		cfg.Overlay = map[string][]byte{}
		for k, v := range o.Replace {
			b, err := os.ReadFile(v)
			if err != nil {
				return nil, err
			}
			cfg.Overlay[k] = b
		}
	}
	var pats []string
	for _, d := range pkgDirs {
		pats = append(pats, "./"+d)
	}
	pkgs, err := packages.Load(cfg, pats...)
	if err != nil {
		return nil, err
	}
	var errs []string
	packages.Visit(pkgs, nil, func(p *packages.Package) {
		if strings.HasPrefix(p.PkgPath, modPath) {
			for _, e := range p.Errors {
				errs = append(errs, e.Error())
			}
		}
	})
	if len(errs) > 0 {
		return nil, fmt.Errorf("load errors: %s", strings.Join(errs, "; "))
	}
	prog, spkgs := ssautil.Packages(pkgs, ssa.InstantiateGenerics|ssa.GlobalDebug)
	prog.Build()
	w.prog = prog
	for i, sp := range spkgs {
		if sp != nil {
			w.pkgs[sp.Pkg.Path()] = sp
			w.tpkgs[sp.Pkg.Path()] = pkgs[i]
		}
	}
	for _, sp := range spkgs {
		if sp == nil {
			continue
		}
		for _, m := range sp.Members {
			switch x := m.(type) {
			case *ssa.Function:
				w.indexFn(x)
			case *ssa.Type:
				for _, t := range []types.Type{x.Type(), types.NewPointer(x.Type())} {
					ms := prog.MethodSets.MethodSet(t)
					for i := 0; i < ms.Len(); i++ {
						if fn := prog.MethodValue(ms.At(i)); fn != nil {
							w.indexFn(fn)
						}
					}
				}
			}
		}
	}
	// instantiations of generic functions are not package members: index those of the module's packages
	for fn := range ssautil.AllFunctions(prog) {
		if fn.Origin() != nil && fn.Origin() != fn {
			pk := fn.Origin().Pkg
			if pk != nil && w.pkgs[pk.Pkg.Path()] != nil {
				w.indexFn(fn)
			}
		}
	}
	// contract files of every package are read (callee contracts), packages are loaded only as needed
	cs, err := LoadContracts(repo, contractDirs(repo))
	if err != nil {
		return nil, err
	}
	w.cs = cs
	return w, nil
}

func (w *World) indexFn(fn *ssa.Function) {
	if fn.Synthetic != "" && !strings.Contains(fn.Synthetic, "instance") {
		return
	}
	k := w.keyOf(fn)
	if _, ok := w.funcsByKey[k]; !ok {
		w.funcsByKey[k] = fn
	}
	for _, an := range fn.AnonFuncs {
		w.indexFn(an)
	}
}

// keyOf: canonical short key of a function: pkgname.Func, (*pkgname.T).M, (pkgname.T).M,
// closures: parentKey$N
func (w *World) keyOf(fn *ssa.Function) string {
	if fn.Parent() != nil {
		return w.keyOf(fn.Parent()) + "$" + strings.TrimPrefix(fn.Name(), fn.Parent().Name()+"$")
	}
	if recv := fn.Signature.Recv(); recv != nil {
		name := fn.Name()
		if i := strings.Index(name, "["); i > 0 {
			name = name[:i] // method of an instantiated generic type: the receiver already names the instance
		}
		return "(" + w.typeKey(recv.Type()) + ")." + name
	}
	if fn.Pkg != nil {
		return fn.Pkg.Pkg.Name() + "." + fn.Name()
	}
	if fn.Object() != nil && fn.Object().Pkg() != nil {
		return fn.Object().Pkg().Name() + "." + fn.Name()
	}
	return fn.Name()
}

func (w *World) typeKey(t types.Type) string {
	return types.TypeString(t, func(p *types.Package) string { return p.Name() })
}

func (w *World) shortKey(full string) string {
	// "(*pkg.T).M" -> "(*T).M"; "pkg.F" -> "F"
	if strings.HasPrefix(full, "(") {
		i := strings.Index(full, ".")
		j := strings.Index(full, ")")
		if i > 0 && i < j {
			pre := "("
			if strings.HasPrefix(full, "(*") {
				pre = "(*"
			}
			return pre + full[i+1:]
		}
		return full
	}
	if i := strings.Index(full, "."); i > 0 {
		return full[i+1:]
	}
	return full
}

// contractFor finds the contract that governs a call to the function with the given key.
func (w *World) contractFor(full string, from *Unit) *Contract {
	if ct, ok := w.cs.Funcs[full]; ok && ct.Opts["verify-only"] == "" {
		// a unit that states its own assumption about a function of another unit (in its own vocabulary of
		// ghosts and spec functions) keeps using it; the function's contract is verified where it lives
		if from != nil && ct.Unit != from {
			if ex, ok := w.cs.Externs[from.Name+"/"+full]; ok {
				return ex
			}
		}
		return ct
	}
	// assumed (extern) contracts are scoped to the unit that states them
	if from != nil {
		if ct, ok := w.cs.Externs[from.Name+"/"+full]; ok {
			return ct
		}
	}
	for _, ct := range w.cs.ExternGlb {
		if from != nil && ct.Unit != from {
			continue
		}
		if globMatch(ct.Key, full) || globMatch(ct.Key, w.shortKey(full)) {
			return ct
		}
	}
	return nil
}

func globMatch(pat, s string) bool {
	// '*' matches any run of characters except at "(*" (pointer receiver)
	pat2 := strings.ReplaceAll(pat, "(*", "(\x00")
	parts := strings.Split(pat2, "*")
	for i := range parts {
		parts[i] = strings.ReplaceAll(parts[i], "\x00", "*")
	}
	if len(parts) == 1 {
		return pat == s
	}
	if !strings.HasPrefix(s, parts[0]) {
		return false
	}
	s = s[len(parts[0]):]
	for i := 1; i < len(parts)-1; i++ {
		k := strings.Index(s, parts[i])
		if k < 0 {
			return false
		}
		s = s[k+len(parts[i]):]
	}
	return strings.HasSuffix(s, parts[len(parts)-1])
}

// paramNames: names of the callee's parameters as seen by its contract (receiver first).
func (w *World) paramNames(ct *Contract, c *ssa.CallCommon) []string {
	if ct.Kind == "extern" {
		var ns []string
		for _, p := range ct.Params {
			ns = append(ns, p.Name)
		}
		return ns
	}
	key := strings.TrimPrefix(strings.TrimPrefix(ct.FullKey, "defer "), "rundefer ")
	if fn := w.funcsByKey[key]; fn != nil {
		var ns []string
		for _, p := range fn.Params {
			ns = append(ns, p.Name())
		}
		return ns
	}
	return nil
}

func (w *World) importedPkg(from *types.Package, name string) *types.Package {
	if from == nil {
		return nil
	}
	// import aliases of the package's source files (acpTypes "…/acp/types")
	if pp := w.tpkgs[from.Path()]; pp != nil {
		for _, f := range pp.Syntax {
			for _, is := range f.Imports {
				if is.Name != nil && is.Name.Name == name {
					path := strings.Trim(is.Path.Value, "\"")
					for _, p := range from.Imports() {
						if p.Path() == path {
							return p
						}
					}
				}
			}
		}
	}
	for _, p := range from.Imports() {
		if p.Name() == name {
			return p
		}
	}
	// fall back: any loaded package with that name
	var found *types.Package
	for _, sp := range w.pkgs {
		if sp.Pkg.Name() == name {
			found = sp.Pkg
		}
	}
	if found != nil {
		return found
	}
	for _, sp := range w.prog.AllPackages() {
		if sp.Pkg.Name() == name {
			return sp.Pkg
		}
	}
	return nil
}

func (w *World) lookupSpec(u *Unit, name string) *SpecFn {
	if sf, ok := u.Specs[name]; ok {
		return sf
	}
	for _, o := range w.cs.Units {
		if sf, ok := o.Specs[name]; ok {
			return sf
		}
	}
	return nil
}

// sorted contract list for deterministic output
func (w *World) contractsSorted() []*Contract {
	cs := append([]*Contract{}, w.cs.All...)
	sort.SliceStable(cs, func(i, j int) bool { return cs[i].FullKey < cs[j].FullKey })
	return cs
}

// aliasExtern: a pure extern may name its results for use in specifications (opt alias=a,b)
func (w *World) aliasExtern(name string) (*Contract, int) {
	for _, ct := range w.cs.All {
		if ct.Kind != "extern" || !ct.Pure {
			continue
		}
		if w.curUnit != nil && ct.Unit != w.curUnit {
			continue
		}
		if al, ok := ct.Opts["alias"]; ok {
			for i, a := range strings.Split(al, ",") {
				if a == name {
					return ct, i
				}
			}
		}
	}
	return nil, 0
}

// lookupGoType resolves "pkg.Type" or "pkg.Type[basic]" among all packages of the program.
func (w *World) lookupGoType(t string) types.Type {
	dot := strings.Index(t, ".")
	if dot <= 0 || strings.ContainsAny(t[:dot], "[]*( ") {
		return nil
	}
	pkgName, rest := t[:dot], t[dot+1:]
	targ := ""
	if i := strings.Index(rest, "["); i > 0 && strings.HasSuffix(rest, "]") {
		targ = rest[i+1 : len(rest)-1]
		rest = rest[:i]
	}
	for _, sp := range w.prog.AllPackages() {
		if sp.Pkg.Name() != pkgName {
			continue
		}
		obj := sp.Pkg.Scope().Lookup(rest)
		tn, ok := obj.(*types.TypeName)
		if !ok {
			continue
		}
		if targ == "" {
			return tn.Type()
		}
		var ta types.Type
		for _, b := range types.Typ {
			if b.Name() == targ {
				ta = b
			}
		}
		if ta == nil {
			ta = w.lookupGoType(targ)
		}
		if ta == nil {
			return nil
		}
		inst, err := types.Instantiate(nil, tn.Type(), []types.Type{ta}, false)
		if err != nil {
			return nil
		}
		return inst
	}
	return nil
}

// typeID: a small integer per concrete dynamic type (identical types share it)
func (w *World) typeID(t types.Type) int {
	if w.typeIDs == nil {
		w.typeIDs = map[string]int{}
	}
	k := types.TypeString(types.Unalias(t), nil)
	if id, ok := w.typeIDs[k]; ok {
		return id
	}
	w.typeIDs[k] = len(w.typeIDs) + 1
	return w.typeIDs[k]
}
