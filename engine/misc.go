package main

import (
	"sort"
	"encoding/json"
	"go/types"
	"os"
	"path/filepath"
)

var byteSliceType = types.NewSlice(types.Typ[types.Uint8])

// per-property presentation data lives in /verif/props.json (level, explanation)
type propInfo struct {
	Level       string `json:"level"`
	Explanation string `json:"explanation"`
}

func loadProps() map[string]propInfo {
	m := map[string]propInfo{}
	data, err := os.ReadFile(filepath.Join(verifDir, "props.json"))
	if err == nil {
		json.Unmarshal(data, &m)
	}
	return m
}

func levelOf(prop string) string {
	if p, ok := loadProps()[prop]; ok && p.Level != "" {
		return p.Level
	}
	return "proof"
}

func explanationOf(prop string) string {
	if p, ok := loadProps()[prop]; ok {
		return p.Explanation
	}
	return ""
}

// mergeBounded: a bounded stand-in (separate harness) leaves its own summary in
// /verif/.work/bounded/<prop>.json; it is reported next to, never inside, the discharged count.
func mergeBounded(prop string, ev map[string]any) {
	data, err := os.ReadFile(filepath.Join(verifDir, ".work", "bounded", prop+".json"))
	if err != nil {
		return
	}
	var b any
	if json.Unmarshal(data, &b) == nil {
		ev["coverage"].(map[string]any)["bounded"] = b
	}
}

func tryReplay(w *World, r *OblResult, workdir string) *replayOutcome {
	return &replayOutcome{Outcome: "not-attempted", Note: "no replay generator for this function shape"}
}

// modelTerms: the terms whose values describe a counterexample: parameters (scalars directly,
// slices by length and their first bytes), initial ghost state.
func (g *gen) modelTerms() []string {
	var vs []string
	names := make([]string, 0, len(g.params))
	for n := range g.params {
		names = append(names, n)
	}
	sortStrings(names)
	for _, n := range names {
		p := g.params[n]
		switch {
		case p.Sort == sSlice:
			vs = append(vs, sx("s.len", p.S))
			if _, ok := g.compSort["HS.bv8"]; ok && p.GoT != nil && p.GoT.String() == "[]byte" {
				for k := int64(0); k < 24; k++ {
					vs = append(vs, sx("select", sx("select", "HS.bv8@0", sx("s.reg", p.S)), g.idxAdd(sx("s.off", p.S), g.idxLit(k))))
				}
			}
		case isBV(p.Sort) || p.Sort == sBool || p.Sort == sInt || isFP(p.Sort):
			vs = append(vs, p.S)
		case p.Sort == sErr:
			vs = append(vs, sx("=", p.S, "errnil"))
		}
	}
	for _, c := range g.compList {
		if len(c) > 2 && c[:2] == "G." {
			s := g.compSort[c]
			if isBV(s) || s == sBool || s == sInt {
				vs = append(vs, c+"@0")
			}
		}
	}
	return vs
}

func sortStrings(s []string) { sort.Strings(s) }
