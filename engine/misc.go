package main

import (
	"strings"
	"fmt"
	"os/exec"
	"sort"
	"encoding/json"
	"go/types"
	"os"
	"path/filepath"
)

var byteSliceType = types.NewSlice(types.Typ[types.Uint8])

// per-property presentation data lives in /verif/props.json (level, explanation)
type propInfo struct {
	Level       string `json:"level"`
	Explanation string `json:"explanation"`
}

func loadProps() map[string]propInfo {
	m := map[string]propInfo{}
	data, err := os.ReadFile(filepath.Join(verifDir, "props.json"))
	if err == nil {
		json.Unmarshal(data, &m)
	}
	return m
}

func levelOf(prop string) string {
	if p, ok := loadProps()[prop]; ok && p.Level != "" {
		return p.Level
	}
	return "proof"
}

func explanationOf(prop string) string {
	if p, ok := loadProps()[prop]; ok {
		return p.Explanation
	}
	return ""
}

// mergeBounded: a bounded stand-in (separate harness) leaves its own summary in
// /verif/.work/bounded/<prop>.json; it is reported next to, never inside, the discharged count.
func mergeBounded(prop string, ev map[string]any) {
	data, err := os.ReadFile(filepath.Join(verifDir, ".work", "bounded", prop+".json"))
	if err != nil {
		return
	}
	var b any
	if json.Unmarshal(data, &b) == nil {
		ev["coverage"].(map[string]any)["bounded"] = b
	}
}

// tryReplay: replay a counterexample against the real code.
//   - protocol obligations of package db (ErrFlow/TxnAPI): the fault-injection harness
//     /verif/harness/db/zz_c05_fault_test.go drives the API calls that reach the function and fails
//     every storage operation in turn (go test -overlay; nothing is written into /repo).
//   - functional (strict) units: see replayFunctional.
func tryReplay(w *World, r *OblResult, workdir string) *replayOutcome {
	g := r.O.G
	if g == nil || g.unit == nil {
		return nil // structural obligation: nothing to execute
	}
	if g.fn != nil && g.unit.Strict {
		return replayFunctional(w, r, workdir)
	}
	if g.fn != nil && g.fn.Pkg != nil && g.unit.ErrFlow {
		switch g.fn.Pkg.Pkg.Path() {
		case modPath + "/internal/db", modPath + "/internal/core/block", modPath + "/internal/core/crdt":
			return replayFaults(w, r, workdir)
		}
	}
	if g.fn != nil && g.fn.Pkg != nil && g.fn.Pkg.Pkg.Path() == modPath+"/internal/planner" && strings.Contains(r.O.Func, "docValueLess") {
		return replayGoTest(w, workdir, "internal/planner", "zz_c08_order_test.go", "harness/planner/zz_c08_order_test.go", "^TestGovcC08MultiKeyOrder$",
			"two documents that tie on the first ordering key, second key ASC and DESC")
	}
	if g.fn != nil && g.fn.Pkg != nil && g.fn.Pkg.Pkg.Path() == modPath+"/internal/datastore" && hasTag(r.O.Tags, "C16") {
		return replayRace(w, r, workdir)
	}
	return &replayOutcome{Outcome: "not-attempted", Note: "no replay generator for this function shape"}
}

// replayRace: goroutines share one concurrent transaction under the race detector.
func replayRace(w *World, r *OblResult, workdir string) *replayOutcome {
	ov := mergedOverlay(workdir, map[string]string{w.repo + "/internal/datastore/zz_c16_race_test.go": filepath.Join(verifDir, "harness/datastore/zz_c16_race_test.go")})
	cmd := exec.Command("go", "test", "-race", "-overlay", ov, "-vet=off", "-count=1", "-timeout", "240s", "-run", "^TestGovcC16ConcurrentTxn$", "./internal/datastore")
	cmd.Dir = w.repo
	cmd.Env = append(os.Environ(), "GOFLAGS=-mod=mod", "GOPROXY=off")
	b, err := cmd.CombinedOutput()
	ro := &replayOutcome{Test: "go test -race -overlay … -run ^TestGovcC16ConcurrentTxn$ ./internal/datastore", Output: truncate(string(b), 3000)}
	switch {
	case strings.Contains(string(b), "WARNING: DATA RACE"):
		ro.Outcome = "reproduced"
		ro.Inputs = "8 goroutines x 200 Set/Get/Has on the stores of one NewConcurrentTxnFrom transaction (in-memory badger): the race detector reports a data race"
	case err == nil:
		ro.Outcome = "not-reproduced"
		ro.Note = "no data race reported by the race detector for this schedule"
	default:
		ro.Outcome = "not-attempted"
		ro.Note = "race harness failed to run"
	}
	return ro
}

func mergedOverlay(workdir string, extra map[string]string) string {
	o := struct{ Replace map[string]string }{Replace: map[string]string{}}
	if ov := os.Getenv("GOVC_OVERLAY"); ov != "" {
		if data, err := os.ReadFile(ov); err == nil {
			json.Unmarshal(data, &o)
		}
	}
	for k, v := range extra {
		o.Replace[k] = v
	}
	data, _ := json.Marshal(o)
	p := filepath.Join(workdir, fmt.Sprintf("overlay-%d.json", len(extra)+len(o.Replace)))
	os.WriteFile(p, data, 0o644)
	return p
}

func replayFaults(w *World, r *OblResult, workdir string) *replayOutcome {
	out := filepath.Join(workdir, "c05-replay.json")
	ov := mergedOverlay(workdir, map[string]string{
		w.repo + "/internal/db/zz_c05_fault_test.go":     filepath.Join(verifDir, "harness/db/zz_c05_fault_test.go"),
		w.repo + "/internal/db/zz_merge_harness_test.go": filepath.Join(verifDir, "harness/db/zz_merge_harness_test.go"),
	})
	cmd := exec.Command("go", "test", "-overlay", ov, "-vet=off", "-count=1", "-timeout", "240s", "-run", "^(TestGovcC05Faults|TestGovcC05MergeFaults)$", "./internal/db")
	cmd.Dir = w.repo
	cmd.Env = append(os.Environ(), "VERIF_C05_FUNC="+r.O.Func, "VERIF_C05_OUT="+out, "GOFLAGS=-mod=mod", "GOPROXY=off")
	b, _ := cmd.CombinedOutput()
	type result struct {
		Scenarios  []string         `json:"scenarios"`
		Cases      int              `json:"cases"`
		Violations []map[string]any `json:"violations"`
	}
	var res result
	ran := false
	for _, f := range []string{out, out + ".merge"} {
		data, err := os.ReadFile(f)
		if err != nil {
			continue
		}
		ran = true
		var one result
		json.Unmarshal(data, &one)
		res.Scenarios = append(res.Scenarios, one.Scenarios...)
		res.Cases += one.Cases
		res.Violations = append(res.Violations, one.Violations...)
	}
	if !ran {
		return &replayOutcome{Outcome: "not-attempted", Note: "fault harness did not run", Output: truncate(string(b), 4000)}
	}
	ro := &replayOutcome{Test: "go test -overlay … -run ^(TestGovcC05Faults|TestGovcC05MergeFaults)$ ./internal/db (VERIF_C05_FUNC=" + r.O.Func + ")"}
	if len(res.Scenarios) == 0 {
		ro.Outcome = "not-attempted"
		ro.Note = "no fault scenario drives " + r.O.Func
		return ro
	}
	if len(res.Violations) > 0 {
		ro.Outcome = "reproduced"
		first, _ := json.Marshal(res.Violations[0])
		ro.Inputs = fmt.Sprintf("scenarios %v: %d of %d fault points violate all-or-nothing; first: %s", res.Scenarios, len(res.Violations), res.Cases, first)
		return ro
	}
	ro.Outcome = "not-reproduced"
	ro.Note = fmt.Sprintf("scenarios %v: %d fault points, none violates all-or-nothing at the API level", res.Scenarios, res.Cases)
	return ro
}

// modelTerms: the terms whose values describe a counterexample: parameters (scalars directly,
// slices by length and their first bytes), initial ghost state.
func (g *gen) modelTerms() []string {
	var vs []string
	names := make([]string, 0, len(g.params))
	for n := range g.params {
		names = append(names, n)
	}
	sortStrings(names)
	for _, n := range names {
		p := g.params[n]
		switch {
		case p.Sort == sSlice:
			vs = append(vs, sx("s.len", p.S))
			if _, ok := g.compSort["HS.bv8"]; ok && p.GoT != nil && p.GoT.String() == "[]byte" {
				for k := int64(0); k < 24; k++ {
					vs = append(vs, sx("select", sx("select", "HS.bv8@0", sx("s.reg", p.S)), g.idxAdd(sx("s.off", p.S), g.idxLit(k))))
				}
			}
		case isBV(p.Sort) || p.Sort == sBool || p.Sort == sInt || isFP(p.Sort):
			vs = append(vs, p.S)
		case p.Sort == sErr:
			vs = append(vs, sx("=", p.S, "errnil"))
		}
	}
	for _, c := range g.compList {
		if len(c) > 2 && c[:2] == "G." {
			s := g.compSort[c]
			if isBV(s) || s == sBool || s == sInt {
				vs = append(vs, c+"@0")
			}
		}
	}
	return vs
}

func sortStrings(s []string) { sort.Strings(s) }

// replayGoTest: run a fixed scenario test of /verif/harness against the current tree.
func replayGoTest(w *World, workdir, pkgDir, injectAs, harnessFile, run, what string) *replayOutcome {
	ov := mergedOverlay(workdir, map[string]string{filepath.Join(w.repo, pkgDir, injectAs): filepath.Join(verifDir, harnessFile)})
	cmd := exec.Command("go", "test", "-overlay", ov, "-vet=off", "-count=1", "-timeout", "120s", "-run", run, "./"+pkgDir)
	cmd.Dir = w.repo
	cmd.Env = append(os.Environ(), "GOFLAGS=-mod=mod", "GOPROXY=off")
	b, err := cmd.CombinedOutput()
	ro := &replayOutcome{Test: "go test -overlay … -run " + run + " ./" + pkgDir, Inputs: what, Output: truncate(string(b), 3000)}
	switch {
	case err != nil && strings.Contains(string(b), "--- FAIL"):
		ro.Outcome = "reproduced"
	case err == nil:
		ro.Outcome = "not-reproduced"
		ro.Note = "the scenario passes on the current tree"
	default:
		ro.Outcome = "not-attempted"
		ro.Note = "scenario test failed to build or run"
	}
	return ro
}

// noPanic: run-time panic obligations are generated for the whole unit ("nopanic" unit flag) or for a
// single function under contract ("opt nopanic").
func (g *gen) noPanic() bool {
	if g.unit != nil && g.unit.NoPanic {
		return true
	}
	return g.ct != nil && g.ct.Opts["nopanic"] != ""
}
