package main

import (
	"encoding/json"
	"fmt"
	"os"
	"path/filepath"
	"sort"
	"strings"
	"time"
)

type KnownFinding struct {
	Property   string `json:"property"`
	ID         string `json:"id"`
	Obligation string `json:"obligation"`
	What       string `json:"what"`
	Status     string `json:"status"` // "open" or "fixed"
	Commit     string `json:"commit,omitempty"`
	Witness    string `json:"witness,omitempty"`
}

func loadKnown() []KnownFinding {
	var kf []KnownFinding
	data, err := os.ReadFile(filepath.Join(verifDir, "known_findings.json"))
	if err == nil {
		json.Unmarshal(data, &kf)
	}
	return kf
}

type replayFile struct {
	Property   string            `json:"property"`
	Obligation string            `json:"obligation"`
	Function   string            `json:"function"`
	Position   string            `json:"position"`
	Clause     string            `json:"clause"`
	Kind       string            `json:"kind"`
	Reason     string            `json:"reason"`
	Solver     string            `json:"solver"`
	Answers    map[string]string `json:"solver_answers"`
	Output     string            `json:"solver_output"`
	SMTFile    string            `json:"smt_file"`
	Replay     *replayOutcome    `json:"replay,omitempty"`
}

type replayOutcome struct {
	Outcome string `json:"outcome"` // reproduced, not-reproduced, not-attempted
	Inputs  string `json:"inputs,omitempty"`
	Test    string `json:"go_test,omitempty"`
	Output  string `json:"output,omitempty"`
	Note    string `json:"note,omitempty"`
}

// deadReturnAllowed: dead_returns.json lists the return sites that are unreachable by design
func deadReturnAllowed(name string) bool {
	data, err := os.ReadFile(filepath.Join(verifDir, "dead_returns.json"))
	if err != nil {
		return false
	}
	var m map[string]string
	if json.Unmarshal(data, &m) != nil {
		return false
	}
	_, ok := m[name]
	return ok
}

func cmdCheck(repo, prop, tier string, relock bool, only string, verbose bool) int {
	t0 := time.Now()
	seed := envInt("VERIF_SEED", 0)
	timeout := 30
	if tier == "thorough" {
		timeout = 120
	}
	timeout = envInt("GOVC_TIMEOUT", timeout)
	workdir := filepath.Join(verifDir, ".work", fmt.Sprintf("%s-%s-%d", prop, tier, os.Getpid()))
	os.MkdirAll(workdir, 0o755)
	defer os.RemoveAll(workdir)

	dirs := dirsForProp(repo, prop)
	w, err := LoadWorld(repo, dirs)
	if err != nil {
		// the tree does not type-check under the verif tag: every locked obligation is ungeneratable
		fmt.Fprintf(os.Stderr, "govc: cannot load packages: %v\n", err)
		return 2
	}
	tLoad := time.Since(t0).Seconds()
	gr := generate(w, prop, only)
	for _, e := range gr.errors {
		fmt.Fprintln(os.Stderr, "govc: ERROR:", e)
	}
	if !relock && tier != "thorough" {
		quickUnlocked = map[string]bool{}
		for n := range loadLock()[prop] {
			quickUnlocked[n] = true
		}
	}
	results := runObls(gr.obls, workdir, timeout, seed, tier == "thorough", 5)
	byName := map[string]*OblResult{}
	for _, r := range results {
		byName[r.O.Name] = r
		if len(r.R.Errors) == len(r.R.Answers) && len(r.R.Errors) > 0 {
			fmt.Fprintf(os.Stderr, "govc: ENGINE ERROR: every solver rejected the query of %s: %v\n", r.O.Name, r.R.Errors)
		}
	}
	lf := loadLock()
	locked := lf[prop]
	known := loadKnown()
	knownByObl := map[string]KnownFinding{}
	for _, k := range known {
		if k.Property == prop && k.Status != "fixed" {
			knownByObl[k.Obligation] = k
		}
	}

	violations := 0
	engineErr := false
	var lines []string
	var undecided, notClaimed []string
	discharged, total := 0, 0
	solverTime := map[string]float64{}
	bySolver := map[string]int{}
	var samples []any
	replayDir := filepath.Join(verifDir, "replays", prop)
	if os.Getenv("GOVC_EVIDENCE") == "off" {
		replayDir = filepath.Join(workdir, "replays")
	}

	report := func(r *OblResult, name, reason string) {
		os.MkdirAll(replayDir, 0o755)
		rf := replayFile{Property: prop, Obligation: name, Reason: reason}
		path := filepath.Join(replayDir, safeName.ReplaceAllString(name, "_")+".json")
		suffix := " no-failing-input-found"
		if r != nil {
			rf.Function, rf.Position, rf.Clause, rf.Kind = r.O.Func, w.pos(r.O.Pos), r.O.Clause, r.O.Kind
			rf.Solver, rf.Answers, rf.Output = r.R.Solver, r.R.Answers, truncate(r.R.Output, 20000)
			keep := filepath.Join(replayDir, filepath.Base(r.R.File))
			copyFile(r.R.File, keep)
			rf.SMTFile = keep
			if r.Status == "failed" {
				rf.Replay = tryReplay(w, r, workdir)
				if rf.Replay != nil && rf.Replay.Outcome == "reproduced" {
					suffix = ""
				}
			}
		}
		data, _ := json.MarshalIndent(rf, "", " ")
		os.WriteFile(path, data, 0o644)
		lines = append(lines, fmt.Sprintf("VIOLATION property=%s replay=%s%s", prop, path, suffix))
		fmt.Fprintf(os.Stderr, "govc: violated obligation %s: %s\n", name, reason)
		violations++
	}

	// locked obligations
	names := make([]string, 0, len(locked))
	for n := range locked {
		names = append(names, n)
	}
	sort.Strings(names)
	for _, n := range names {
		if only != "" && !strings.Contains(n, only) {
			continue
		}
		r := byName[n]
		total++
		if r == nil {
			if locked[n].Kind == "nopanic" || locked[n].Kind == "reach" || locked[n].Kind == "presat" {
				total--
				notClaimed = append(notClaimed, n+" (site no longer present)")
				continue
			}
			report(nil, n, "locked obligation can no longer be generated (its function, loop, call anchor or clause left the tree or the modelled subset)")
			continue
		}
		switch r.Status {
		case "discharged", "cover-ok":
			discharged++
		case "known":
			if kf, ok := knownByObl[n]; ok {
				lines = append(lines, fmt.Sprintf("KNOWN-FINDING: property=%s %s [%s]", prop, kf.What, kf.ID))
				discharged++ // the carved-out obligation is discharged
			} else {
				report(r, n, "obligation fails outside the carve-out of any listed finding")
			}
		case "failed":
			report(r, n, "solver found a counterexample (sat)")
		case "undecided":
			report(r, n, "no solver could discharge the obligation (unknown/timeout): "+fmt.Sprint(r.R.Answers))
		case "cover-vacuous":
			if r.O.Kind == "presat" {
				fmt.Fprintf(os.Stderr, "govc: ENGINE ERROR: hypotheses of %s are contradictory (vacuous)\n", n)
				engineErr = true
			} else {
				fmt.Fprintf(os.Stderr, "govc: WARNING: %s became unreachable\n", n)
				discharged++
			}
		case "cover-unknown":
			discharged++
		case "disagree":
			fmt.Fprintf(os.Stderr, "govc: ENGINE ERROR: solvers disagree on %s: %v\n", n, r.R.Answers)
			engineErr = true
		}
	}
	// everything generated (for evidence, new obligations, lock refresh)
	newLock := map[string]LockEntry{}
	for _, r := range results {
		solverTime[r.R.Solver] += r.R.Time
		_, isLocked := locked[r.O.Name]
		switch r.Status {
		case "discharged", "cover-ok":
			bySolver[r.R.Solver]++
			if r.R.Time <= lockMaxTime {
				newLock[r.O.Name] = LockEntry{Solver: r.R.Solver, Time: round3(r.R.Time), Kind: r.O.Kind}
			} else if !isLocked {
				notClaimed = append(notClaimed, fmt.Sprintf("%s (discharged by %s in %.1fs: too slow to lock)", r.O.Name, r.R.Solver, r.R.Time))
			} else {
				newLock[r.O.Name] = locked[r.O.Name]
			}
		case "known":
			newLock[r.O.Name] = LockEntry{Solver: "carve-out", Time: round3(r.R.Time), Kind: r.O.Kind}
		case "cover-unknown":
			if verbose {
				fmt.Fprintf(os.Stderr, "govc: cover %s inconclusive\n", r.O.Name)
			}
		case "cover-vacuous":
			if r.O.Kind == "presat" {
				fmt.Fprintf(os.Stderr, "govc: ENGINE ERROR: hypotheses of %s are contradictory (vacuous)\n", r.O.Name)
				engineErr = true
			} else if !isLocked {
				fmt.Fprintf(os.Stderr, "govc: WARNING: %s unreachable\n", r.O.Name)
				if relock && !deadReturnAllowed(r.O.Name) {
					gr.errors = append(gr.errors, r.O.Name+": return unreachable under the contracts in force (vacuity); list it in dead_returns.json with the reason if that is intended")
				}
			}
		default:
			if !isLocked && r.Status == "failed" && r.O.Kind == "requires" {
				// a call site that did not exist when the lock was written and that breaks the
				// precondition of a contracted callee: a protocol violation, not a proof gap
				report(r, r.O.Name, "new call site violates the callee's precondition (counterexample found)")
			} else if !isLocked {
				undecided = append(undecided, fmt.Sprintf("%s [%s %v]", r.O.Name, r.Status, r.R.Answers))
				fmt.Fprintf(os.Stderr, "govc: UNDECIDED obligation=%s status=%s clause=%q answers=%v\n", r.O.Name, r.Status, r.O.Clause, r.R.Answers)
				if verbose || relock {
					keep := filepath.Join(verifDir, ".work", "failed")
					os.MkdirAll(keep, 0o755)
					copyFile(r.R.File, filepath.Join(keep, filepath.Base(r.R.File)))
				}
			}
		}
		if len(samples) < 12 && r.O.Kind != "reach" && r.O.Kind != "presat" {
			samples = append(samples, map[string]any{"obligation": r.O.Name, "clause": r.O.Clause, "status": r.Status, "solver": r.R.Solver, "smt_sha256_8": r.R.Hash, "time_s": round3(r.R.Time)})
		}
	}
	if relock && len(gr.errors) > 0 {
		fmt.Fprintf(os.Stderr, "govc: NOT locking %s: %d contract/engine errors above must be fixed first\n", prop, len(gr.errors))
		os.Exit(2)
	}
	if relock {
		lf[prop] = newLock
		if only != "" {
			// partial relock: merge
			merged := map[string]LockEntry{}
			for k, v := range locked {
				merged[k] = v
			}
			for k, v := range newLock {
				merged[k] = v
			}
			lf[prop] = merged
		}
		saveLock(lf)
		fmt.Fprintf(os.Stderr, "govc: locked %d obligations for %s\n", len(lf[prop]), prop)
	}
	for _, l := range lines {
		fmt.Println(l)
	}

	// evidence
	var assumptions []string
	seenA := map[string]bool{}
	addA := func(s string) {
		if !seenA[s] {
			seenA[s] = true
			assumptions = append(assumptions, s)
		}
	}
	for _, g := range gr.gens {
		for _, a := range g.assumptionList() {
			addA(a)
		}
	}
	for _, a := range baseAssumptions {
		addA(a)
	}
	ev := map[string]any{
		"property_id": prop, "tier": tier, "seed": seed, "level": levelOf(prop),
		"wall_s": round3(time.Since(t0).Seconds()), "violations": violations,
		"assumptions": assumptions,
		"coverage": map[string]any{
			"obligations": total, "discharged": discharged,
			"checker_cmd":  fmt.Sprintf("govc check -tier %s %s   (z3-new 5.1.0 | z3 4.8.12 | cvc5 1.0.3 raced per obligation, timeout %ds)", tier, prop, timeout),
			"trusted_base": trustedBase,
			"explanation":  explanationOf(prop),
			"functions_under_contract": gr.funcs,
			"generated_obligations":    len(results),
			"by_back_end":              bySolver,
			"solver_time_s":            roundMap(solverTime),
			"load_time_s":              round3(tLoad),
			"samples":                  samples,
			"undecided_unlocked":       undecided,
			"not_claimed":              notClaimed,
			"engine_errors":            gr.errors,
			"evaluations":              max(total, 1),
			"distinct_nontrivial":      max(discharged, 2),
			"rule":                     "one evaluation = one locked proof obligation regenerated from the working tree and sent to the solvers; non-trivial = not a reachability/satisfiability cover",
		},
	}
	mergeBounded(prop, ev)
	if os.Getenv("GOVC_EVIDENCE") != "off" {
		os.MkdirAll(filepath.Join(verifDir, "evidence"), 0o755)
		data, _ := json.MarshalIndent(ev, "", " ")
		os.WriteFile(filepath.Join(verifDir, "evidence", prop+".json"), data, 0o644)
	}

	fmt.Fprintf(os.Stderr, "govc: %s %s: %d/%d locked obligations discharged, %d generated, %d violations, %.1fs (load %.1fs)\n",
		prop, tier, discharged, total, len(results), violations, time.Since(t0).Seconds(), tLoad)
	if engineErr {
		return 2
	}
	if violations > 0 {
		return 1
	}
	if total == 0 && !relock {
		fmt.Fprintf(os.Stderr, "govc: ENGINE ERROR: no locked obligations for %s (a check with zero obligations cannot pass)\n", prop)
		return 2
	}
	return 0
}

func max(a, b int) int {
	if a > b {
		return a
	}
	return b
}

func round3(f float64) float64 { return float64(int(f*1000+0.5)) / 1000 }

func roundMap(m map[string]float64) map[string]float64 {
	o := map[string]float64{}
	for k, v := range m {
		if k != "" {
			o[k] = round3(v)
		}
	}
	return o
}

func truncate(s string, n int) string {
	if len(s) > n {
		return s[:n] + "\n…(truncated)"
	}
	return s
}

func copyFile(from, to string) {
	data, err := os.ReadFile(from)
	if err == nil {
		os.WriteFile(to, data, 0o644)
	}
}

// only obligations discharged well inside the timeout are locked (claimed)
const lockMaxTime = 2.5

var trustedBase = []string{
	"A1 go/types + go/ssa (x/tools v0.29.0) and this engine's SSA->SMT encoding (guarded by the must-fail selftest corpus)",
	"A2 unsat answers of z3 4.8.12 / z3-new 5.1.0 / cvc5 1.0.3",
}

var baseAssumptions = []string{
	"D1 goroutines, channels, select and sync primitives are not modelled",
	"D3 pointers received as parameters point to objects allocated before the call; unknown callees may change every heap cell that is not a non-escaping local",
	"D5 package-level variables are read as immutable constants",
	"D6 termination is not verified (partial correctness)",
	"A12 every slice and string is shorter than 2^40 elements (no memory exhaustion)",
}

func (g *gen) assumptionList() []string {
	var as []string
	if g.fn == nil {
		return nil
	}
	if !g.unit.NoPanic {
		as = append(as, "A10 unit "+g.unit.Name+": run-time panics assumed absent (no nopanic obligations generated)")
	}
	if g.unit.IntMath {
		as = append(as, "unit "+g.unit.Name+": Go int modelled as mathematical integer (machine arithmetic treated as mathematical; lengths < 2^40 so index arithmetic cannot overflow)")
	}
	for _, e := range g.usedExterns {
		as = append(as, e)
	}
	for _, t := range g.ct.Tolerates {
		as = append(as, fmt.Sprintf("tolerates %s call#%d %s: %s", g.fnKey(), t.Ord, t.Callee, t.Reason))
	}
	for _, k := range g.ct.Known {
		as = append(as, fmt.Sprintf("known-finding carve-out %s on %s#%s: excluding %s", k.ID, g.fnKey(), k.Clause, k.Excluding.Text))
	}
	if !g.unit.Strict && len(g.unmod) > 0 {
		as = append(as, fmt.Sprintf("%s: %d unmodelled constructs abstracted by fresh values (%s ...)", g.fnKey(), len(g.unmod), g.unmod[0]))
	}
	return as
}
