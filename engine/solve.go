package main

import (
	"bytes"
	"context"
	"crypto/sha256"
	"fmt"
	"os"
	"os/exec"
	"path/filepath"
	"regexp"
	"strings"
	"sync"
	"time"
)

type SolveResult struct {
	Status  string // unsat, sat, unknown
	Solver  string
	Time    float64
	Output  string // raw output of the deciding solver (model or reason)
	File    string
	Answers map[string]string
	Hash    string
	Errors  []string
}

var safeName = regexp.MustCompile(`[^A-Za-z0-9_.#\[\]@-]`)

func (o *Obl) query(extra string, wantModel bool) string {
	var sb strings.Builder
	sb.WriteString("(set-option :produce-models true)\n")
	g := o.G
	for _, d := range g.decl {
		sb.WriteString(d)
		sb.WriteByte('\n')
	}
	for _, l := range g.body[:o.Prelude] {
		sb.WriteString(l)
		sb.WriteByte('\n')
	}
	if extra != "" {
		sb.WriteString("(assert " + extra + ")\n")
	}
	sb.WriteString("(assert (not " + o.Goal + "))\n(check-sat)\n")
	if wantModel {
		if vs := g.modelTerms(); len(vs) > 0 {
			sb.WriteString("(get-value (" + strings.Join(vs, " ") + "))\n")
		}
	}
	return sb.String()
}

type solverSpec struct {
	name string
	args func(file string, timeoutS int, seed int) []string
}

var solvers = []solverSpec{
	{"z3-new", func(f string, t, seed int) []string {
		return []string{"z3-new", fmt.Sprintf("-T:%d", t), fmt.Sprintf("smt.random_seed=%d", seed), f}
	}},
	{"z3", func(f string, t, seed int) []string {
		return []string{"z3", fmt.Sprintf("-T:%d", t), fmt.Sprintf("smt.random_seed=%d", seed), f}
	}},
	{"cvc5", func(f string, t, seed int) []string {
		return []string{"cvc5", fmt.Sprintf("--tlimit=%d", t*1000), fmt.Sprintf("--seed=%d", seed), "--fp-exp", f}
	}},
}

func hasLambda(q string) bool { return strings.Contains(q, "(lambda ") }

// solve races the installed solvers on one query.
func solve(workdir, name, query string, timeoutS, seed int, needAgreement bool) *SolveResult {
	file := filepath.Join(workdir, safeName.ReplaceAllString(name, "_")+".smt2")
	os.WriteFile(file, []byte(query), 0o644)
	// cvc5 wants an explicit logic; z3 chooses better tactics without one
	cfile := filepath.Join(workdir, safeName.ReplaceAllString(name, "_")+".cvc5.smt2")
	os.WriteFile(cfile, []byte("(set-logic ALL)\n"+query), 0o644)
	h := sha256.Sum256([]byte(query))
	res := &SolveResult{Status: "unknown", File: file, Answers: map[string]string{}, Hash: fmt.Sprintf("%x", h[:8])}
	ctx, cancel := context.WithCancel(context.Background())
	defer cancel()
	type ans struct {
		solver, status, out string
		t               float64
	}
	ch := make(chan ans, len(solvers))
	var wg sync.WaitGroup
	start := time.Now()
	n := 0
	for _, s := range solvers {
		if s.name == "cvc5" && hasLambda(query) {
			continue
		}
		n++
		wg.Add(1)
		go func(s solverSpec) {
			defer wg.Done()
			f := file
			if s.name == "cvc5" {
				f = cfile
			}
			a := s.args(f, timeoutS, seed)
			cctx, ccancel := context.WithTimeout(ctx, time.Duration(timeoutS+2)*time.Second)
			defer ccancel()
			cmd := exec.CommandContext(cctx, a[0], a[1:]...)
			var out bytes.Buffer
			cmd.Stdout = &out
			cmd.Stderr = &out
			t0 := time.Now()
			cmd.Run()
			txt := out.String()
			first := strings.TrimSpace(strings.SplitN(txt, "\n", 2)[0])
			st := "unknown"
			if first == "sat" || first == "unsat" {
				st = first
			} else if strings.HasPrefix(first, "(error") && !strings.Contains(first, "model is not available") {
				st = "error"
			}
			ch <- ans{s.name, st, txt, time.Since(t0).Seconds()}
		}(s)
	}
	got := 0
	for got < n {
		a := <-ch
		got++
		res.Answers[a.solver] = a.status
		if a.status == "sat" || a.status == "unsat" {
			if res.Status == "unknown" {
				res.Status, res.Solver, res.Output, res.Time = a.status, a.solver, a.out, a.t
				if !needAgreement {
					cancel()
					break
				}
			} else if res.Status != a.status {
				res.Status = "disagree"
				res.Output += "\n--- " + a.solver + " ---\n" + a.out
			}
		} else if a.status == "error" {
			res.Errors = append(res.Errors, a.solver+": "+strings.SplitN(a.out, "\n", 2)[0])
			if res.Status == "unknown" {
				res.Output = a.out
			}
		} else if res.Status == "unknown" && len(a.out) > 0 {
			res.Output = a.out
			res.Solver = a.solver
		}
	}
	if res.Time == 0 {
		res.Time = time.Since(start).Seconds()
	}
	go func() { wg.Wait() }()
	return res
}
