package main

import (
	"fmt"
	"go/constant"
	"go/token"
	"go/types"
	"math"
	"sort"
	"strings"

	"golang.org/x/tools/go/ssa"
)

// Obl is one proof obligation: prelude (declarations + definitions + assumptions up to the
// point where it was generated) and a goal that must be valid.
type Obl struct {
	Name    string
	Func    string
	Clause  string
	Goal    string
	Prelude int // number of body lines that precede it
	G       *gen
	Pos     token.Pos
	Tags    []string
	Kind    string // ensures, requires, loop.init, loop.preserve, nopanic, frame, assert, lemma, reach, presat
	Cover   bool   // a cover: must be SAT (reachability / satisfiability of hypotheses)
	Extra   string // additional hypothesis (used for known-finding carve-outs)
	Known   *Known
	KnownEx string // translated excluding predicate
}

type gen struct {
	w    *World
	fn   *ssa.Function
	ct   *Contract
	unit *Unit
	idx  string // sort of Go int (index sort)

	decl     []string
	declared map[string]bool
	body     []string

	vals   map[ssa.Value]T
	tuples map[ssa.Value][]T
	n      int

	compSort map[string]string
	compDef  map[string]string // default current name when a state map lacks the component
	compList []string
	havocs   int

	reach     map[*ssa.BasicBlock]string
	exitReach map[*ssa.BasicBlock]string
	exitState map[*ssa.BasicBlock]map[string]string
	edgeCond  map[[2]*ssa.BasicBlock]string
	edgeTaken map[[2]*ssa.BasicBlock]string
	cur       map[string]string
	curReach  string
	curBlock  *ssa.BasicBlock

	obls     []*Obl
	warnings []string
	unmod    []string // unmodelled constructs met (strict units reject)

	params    map[string]T
	results   []string
	retSites  []*retSite
	stable    map[*ssa.Alloc]bool
	allocAddr map[*ssa.Alloc]string
	callOrd   map[string]int
	loopNalloc map[*ssa.BasicBlock]string
	loopLocalStores map[*ssa.BasicBlock]map[*ssa.Alloc]bool
	callReach map[string]string
	callBlock map[string]*ssa.BasicBlock // block of the k-th call of a callee (for called(): a dominating call was executed)
	debugVars map[*ssa.BasicBlock]map[string]T
	loopOrd   map[*ssa.BasicBlock]int
	closures  map[ssa.Value]*ssa.MakeClosure
	defers    []*ssa.Defer
	events    []string
	usedExterns []string
	npOrd map[string]int
	callResults map[string][]T
	callArgsRec map[string][]T
	escaped map[*ssa.Alloc]bool
	nfa int
	ci *cfgInfo
	specPkg *types.Package // package whose scope resolves unqualified names while a callee's contract is evaluated
	uncontracted []string
	srcOrd map[ssa.Instruction]int
	faTag map[string]int
	addrRoot map[string]*ssa.Alloc
	addrList []string
}

type retSite struct {
	block *ssa.BasicBlock
	reach string
	vals  []T
	state map[string]string
	pos   token.Pos
	idx   int
}

func (g *gen) fresh(prefix string) string {
	g.n++
	return fmt.Sprintf("%s!%d", prefix, g.n)
}

func (g *gen) declare(key, line string) {
	if g.declared[key] {
		return
	}
	g.declared[key] = true
	g.decl = append(g.decl, line)
}

func (g *gen) emit(line string) { g.body = append(g.body, line) }

func (g *gen) assume(t string) {
	if t == "true" {
		return
	}
	g.emit(sx("assert", t))
}

// define introduces a named constant equal to term (keeps formulas linear in size).
func (g *gen) define(prefix, sort, term string) string {
	n := g.fresh(prefix)
	g.emit(fmt.Sprintf("(define-fun %s () %s %s)", n, sort, term))
	return n
}

func (g *gen) declConst(prefix, sort string) string {
	n := g.fresh(prefix)
	g.ensureSort(sort)
	g.emit(fmt.Sprintf("(declare-const %s %s)", n, sort))
	return n
}

func (g *gen) warn(f string, a ...any) {
	g.warnings = append(g.warnings, fmt.Sprintf(f, a...))
}

func (g *gen) unmodelled(what string, pos token.Pos) {
	g.unmod = append(g.unmod, fmt.Sprintf("%s at %s", what, g.w.pos(pos)))
}

// ---------------------------------------------------------------- sorts

func (g *gen) ensureSort(s string) {
	switch s {
	case sBool, sInt, sF64, sF32:
		return
	}
	if isBV(s) || strings.HasPrefix(s, "(Array ") {
		return
	}
	if g.declared["sort:"+s] {
		return
	}
	switch s {
	case sErr:
		g.declare("sort:"+s, "(declare-sort Err 0)\n(declare-const errnil Err)")
	case sStr:
		g.declare("sort:"+s, fmt.Sprintf("(declare-sort Str 0)\n(declare-fun gstr.len (Str) %s)\n(declare-fun gstr.lt (Str Str) Bool)\n(declare-fun gstr.at (Str %s) (_ BitVec 8))", g.idx, g.idx))
	case sIface:
		g.declare("sort:"+s, "(declare-sort Iface 0)\n(declare-const ifnil Iface)")
	case sFn:
		g.declare("sort:"+s, "(declare-sort Fn 0)\n(declare-const fnnil Fn)")
	case sSlice:
		g.declare("sort:"+s, fmt.Sprintf("(declare-datatypes ((Slice 0)) (((mk-slice (s.reg Int) (s.off %s) (s.len %s)))))", g.idx, g.idx))
	default:
		if strings.HasPrefix(s, "U_") {
			g.declare("sort:"+s, fmt.Sprintf("(declare-sort %s 0)", s))
			return
		}
		// struct datatypes are declared by structSort
		if !strings.HasPrefix(s, "S_") {
			panic("unknown sort " + s)
		}
	}
}

type fieldInfo struct {
	Name   string
	Sort   string
	Signed bool
	Typ    types.Type
}

func (g *gen) structFields(st *types.Struct) []fieldInfo {
	var fs []fieldInfo
	for i := 0; i < st.NumFields(); i++ {
		f := st.Field(i)
		s, sg := g.sortOf(f.Type())
		fs = append(fs, fieldInfo{f.Name(), s, sg, f.Type()})
	}
	return fs
}

func (g *gen) structName(t types.Type) string {
	if n, ok := t.(*types.Named); ok {
		return "S_" + mangle(types.TypeString(n, nil))
	}
	if a, ok := t.(*types.Alias); ok {
		return g.structName(types.Unalias(a))
	}
	return "S_anon_" + mangle(types.TypeString(t, nil))
}

func (g *gen) structSort(t types.Type) string {
	name := g.structName(t)
	if g.declared["sort:"+name] {
		return name
	}
	g.declared["sort:"+name] = true // guard recursion (recursion only through pointers = Int)
	st := t.Underlying().(*types.Struct)
	fs := g.structFields(st)
	var sb strings.Builder
	fmt.Fprintf(&sb, "(declare-datatypes ((%s 0)) (((mk.%s", name, name)
	for i, f := range fs {
		fmt.Fprintf(&sb, " (%s.%d %s)", name, i, f.Sort)
	}
	if len(fs) == 0 {
		fmt.Fprintf(&sb, " (%s.unit Bool)", name)
	}
	sb.WriteString("))))")
	g.decl = append(g.decl, sb.String())
	return name
}

// sortOf maps a Go type to an SMT sort.
func (g *gen) sortOf(t types.Type) (string, bool) {
	t = types.Unalias(t)
	if isErrorType(t) {
		g.ensureSort(sErr)
		return sErr, false
	}
	switch t.(type) {
	case *types.Named, *types.Basic, *types.Pointer, *types.Slice, *types.Struct, *types.Array, *types.Interface,
		*types.Signature, *types.Map, *types.Chan, *types.Tuple, *types.TypeParam:
	default:
		g.ensureSort("U_opaque")
		return "U_opaque", false
	}
	switch u := t.Underlying().(type) {
	case *types.Basic:
		switch u.Kind() {
		case types.Bool, types.UntypedBool:
			return sBool, false
		case types.Int, types.UntypedInt:
			return g.idx, true
		case types.Int8:
			return bvSort(8), true
		case types.Int16:
			return bvSort(16), true
		case types.Int32, types.UntypedRune:
			return bvSort(32), true
		case types.Int64:
			return bvSort(64), true
		case types.Uint8:
			return bvSort(8), false
		case types.Uint16:
			return bvSort(16), false
		case types.Uint32:
			return bvSort(32), false
		case types.Uint64, types.Uint, types.Uintptr:
			return bvSort(64), false
		case types.Float64, types.UntypedFloat:
			return sF64, true
		case types.Float32:
			return sF32, true
		case types.String, types.UntypedString:
			g.ensureSort(sStr)
			return sStr, false
		case types.UnsafePointer:
			return sPtr, false
		case types.UntypedNil:
			return sPtr, false
		}
	case *types.Pointer:
		return sPtr, false
	case *types.Slice:
		g.ensureSort(sSlice)
		return sSlice, false
	case *types.Struct:
		return g.structSort(t), false
	case *types.Array:
		es, _ := g.sortOf(u.Elem())
		return fmt.Sprintf("(Array %s %s)", g.idx, es), false
	case *types.Interface:
		g.ensureSort(sIface)
		return sIface, false
	case *types.Signature:
		g.ensureSort(sFn)
		return sFn, false
	case *types.Map:
		return sPtr, false // a map value is a handle; its content lives in the HM/HMP heap components
	case *types.Chan:
		g.ensureSort("U_chan")
		return "U_chan", false
	case *types.Tuple:
		return "TUPLE", false
	case *types.TypeParam:
		g.ensureSort(sIface)
		return sIface, false
	}
	s := "U_" + mangle(types.TypeString(t, nil))
	g.ensureSort(s)
	return s, false
}

func isErrorType(t types.Type) bool {
	switch t.(type) {
	case *types.Named, *types.Interface, *types.Alias:
		return types.Identical(t, types.Universe.Lookup("error").Type())
	}
	return false
}

func (g *gen) zero(t types.Type) T {
	s, sg := g.sortOf(t)
	return T{S: g.zeroOfSort(s, t), Sort: s, Signed: sg, GoT: t}
}

func (g *gen) zeroOfSort(s string, t types.Type) string {
	switch {
	case s == sBool:
		return "false"
	case s == sInt:
		return "0"
	case isBV(s):
		return bvLit(0, bvWidth(s))
	case s == sF64:
		return "(_ +zero 11 53)"
	case s == sF32:
		return "(_ +zero 8 24)"
	case s == sErr:
		return "errnil"
	case s == sIface:
		return "ifnil"
	case s == sFn:
		return "fnnil"
	case s == sSlice:
		return sx("mk-slice", "0", g.idxLit(0), g.idxLit(0))
	case s == sStr:
		g.declare("gstr.empty", fmt.Sprintf("(declare-const gstr.empty Str)\n(assert (= (gstr.len gstr.empty) %s))", g.idxLit(0)))
		return "gstr.empty"
	case strings.HasPrefix(s, "S_"):
		if t != nil {
			if st, ok := t.Underlying().(*types.Struct); ok {
				args := []string{}
				for _, f := range g.structFields(st) {
					args = append(args, g.zeroOfSort(f.Sort, f.Typ))
				}
				if len(args) == 0 {
					args = []string{"true"}
				}
				return sx("mk."+s, args...)
			}
		}
	case strings.HasPrefix(s, "(Array "):
		if t != nil {
			if a, ok := t.Underlying().(*types.Array); ok {
				es, _ := g.sortOf(a.Elem())
				return g.constArray(s, es, a.Elem())
			}
		}
	}
	// opaque: a distinguished zero constant per sort
	z := "zero." + sortID(s)
	g.ensureSort(s)
	g.declare(z, fmt.Sprintf("(declare-const %s %s)", z, s))
	return z
}

// ---------------------------------------------------------------- index sort helpers

func (g *gen) idxLit(v int64) string {
	if g.idx == sInt {
		if v < 0 {
			return fmt.Sprintf("(- %d)", -v)
		}
		return fmt.Sprintf("%d", v)
	}
	return bvLit(uint64(v), 64)
}
func (g *gen) idxAdd(a, b string) string {
	if g.idx == sInt {
		return sx("+", a, b)
	}
	return sx("bvadd", a, b)
}
func (g *gen) idxSub(a, b string) string {
	if g.idx == sInt {
		return sx("-", a, b)
	}
	return sx("bvsub", a, b)
}
func (g *gen) idxLe(a, b string) string {
	if g.idx == sInt {
		return sx("<=", a, b)
	}
	return sx("bvsle", a, b)
}
func (g *gen) idxLt(a, b string) string {
	if g.idx == sInt {
		return sx("<", a, b)
	}
	return sx("bvslt", a, b)
}

// maximum length assumed for any slice / string (A12: no memory exhaustion): 2^40.
func (g *gen) idxMaxLen() string { return g.idxLit(1 << 40) }

func (g *gen) wfSlice(s string) string {
	return and(g.idxLe(g.idxLit(0), sx("s.off", s)), g.idxLe(sx("s.off", s), g.idxMaxLen()),
		g.idxLe(g.idxLit(0), sx("s.len", s)), g.idxLe(sx("s.len", s), g.idxMaxLen()),
		sx("<=", "0", sx("s.reg", s)),
		implies(sx("=", sx("s.reg", s), "0"), sx("=", sx("s.len", s), g.idxLit(0))))
}

// convert a term of an integer sort to the index sort
func (g *gen) toIdx(t T) string {
	if t.Sort == g.idx {
		return t.S
	}
	if isBV(t.Sort) {
		w := bvWidth(t.Sort)
		if g.idx == sInt {
			if t.Signed {
				// signed value of a bit-vector
				return sx("ite", sx("bvslt", t.S, bvLit(0, w)), sx("-", sx("bv2nat", t.S), fmt.Sprintf("%d", new(bigPow).pow2(w))), sx("bv2nat", t.S))
			}
			return sx("bv2nat", t.S)
		}
		if w < 64 {
			if t.Signed {
				return sx(fmt.Sprintf("(_ sign_extend %d)", 64-w), t.S)
			}
			return sx(fmt.Sprintf("(_ zero_extend %d)", 64-w), t.S)
		}
		return t.S
	}
	if t.Sort == sInt && g.idx != sInt {
		return sx("(_ int2bv 64)", t.S)
	}
	return t.S
}

type bigPow struct{}

func (*bigPow) pow2(w int) string {
	switch w {
	case 8:
		return "256"
	case 16:
		return "65536"
	case 32:
		return "4294967296"
	case 64:
		return "18446744073709551616"
	}
	return fmt.Sprintf("%d", uint64(1)<<uint(w))
}

// ---------------------------------------------------------------- state components

func (g *gen) comp(name, sort string) string {
	if _, ok := g.compSort[name]; !ok {
		g.compSort[name] = sort
		g.compList = append(g.compList, name)
		g.ensureSort(sort)
		init := name + "@0"
		g.declare("comp:"+name, fmt.Sprintf("(declare-const %s %s)", init, sort))
		if g.havocs == 0 {
			g.compDef[name] = init
		} else {
			u := name + "@u"
			g.declare("compu:"+name, fmt.Sprintf("(declare-const %s %s)", u, sort))
			g.compDef[name] = u
		}
	}
	if v, ok := g.cur[name]; ok {
		return v
	}
	return g.compDef[name]
}

func (g *gen) stateGet(st map[string]string, name string) string {
	if v, ok := st[name]; ok {
		return v
	}
	return g.compDef[name]
}

func (g *gen) setComp(name, term string) {
	sort := g.compSort[name]
	g.cur[name] = g.define(strings.ReplaceAll(name, "@", "_"), sort, term)
}

func (g *gen) heapSlice(elemSort string) string {
	name := "HS." + sortID(elemSort)
	g.comp(name, fmt.Sprintf("(Array Int (Array %s %s))", g.idx, elemSort))
	return name
}
func (g *gen) heapField(structName string, i int, sort string) string {
	name := fmt.Sprintf("HF.%s.%d", structName, i)
	g.comp(name, fmt.Sprintf("(Array Int %s)", sort))
	return name
}
func (g *gen) heapCell(sort string) string {
	name := "HC." + sortID(sort)
	g.comp(name, fmt.Sprintf("(Array Int %s)", sort))
	return name
}
func (g *gen) nalloc() string { return g.comp("nalloc", sInt) }

func (g *gen) allocAddrNew() string {
	a := g.define("addr", sInt, g.nalloc())
	g.setComp("nalloc", sx("+", a, "1"))
	return a
}

func (g *gen) ghostComp(gh *Ghost) string {
	name := "G." + gh.Name
	s := g.sortOfSpecType(gh.Type)
	g.comp(name, s)
	return name
}

// ---------------------------------------------------------------- constants

func (g *gen) constTerm(c *ssa.Const) T {
	t := c.Type()
	s, sg := g.sortOf(t)
	r := T{Sort: s, Signed: sg, GoT: t}
	if c.Value == nil {
		r.S = g.zeroOfSort(s, t)
		return r
	}
	r.S = g.constVal(c.Value, s, t)
	return r
}

func (g *gen) constVal(v constant.Value, s string, t types.Type) string {
	switch {
	case s == sBool:
		if constant.BoolVal(v) {
			return "true"
		}
		return "false"
	case s == sInt:
		i, _ := constant.Int64Val(constant.ToInt(v))
		return g.idxLitInt(i)
	case isBV(s):
		w := bvWidth(s)
		iv := constant.ToInt(v)
		if i, ok := constant.Int64Val(iv); ok {
			return bvLit(uint64(i), w)
		}
		u, _ := constant.Uint64Val(iv)
		return bvLit(u, w)
	case s == sF64:
		f, _ := constant.Float64Val(constant.ToFloat(v))
		return fmt.Sprintf("((_ to_fp 11 53) %s)", bvLit(math.Float64bits(f), 64))
	case s == sF32:
		f, _ := constant.Float32Val(constant.ToFloat(v))
		return fmt.Sprintf("((_ to_fp 8 24) %s)", bvLit(uint64(math.Float32bits(f)), 32))
	case s == sStr:
		return g.strLit(constant.StringVal(v))
	}
	return g.zeroOfSort(s, t)
}

func (g *gen) idxLitInt(i int64) string {
	if i < 0 {
		return fmt.Sprintf("(- %d)", -i)
	}
	return fmt.Sprintf("%d", i)
}

func (g *gen) strLit(s string) string {
	g.ensureSort(sStr)
	if s == "" {
		return g.zeroOfSort(sStr, nil)
	}
	name := "str." + mangle(s)
	if len(name) > 40 {
		name = fmt.Sprintf("%s.%x", name[:40], hashStr(s))
	}
	g.declare("strlit:"+s, fmt.Sprintf("(declare-const %s Str)\n(assert (= (gstr.len %s) %s))", name, name, g.idxLit(int64(len(s)))))
	return name
}

func hashStr(s string) uint32 {
	var h uint32 = 2166136261
	for i := 0; i < len(s); i++ {
		h ^= uint32(s[i])
		h *= 16777619
	}
	return h
}

// ---------------------------------------------------------------- values

func (g *gen) val(v ssa.Value) T {
	if t, ok := g.vals[v]; ok {
		return t
	}
	switch x := v.(type) {
	case *ssa.Const:
		return g.constTerm(x)
	case *ssa.Global:
		// address of a package-level variable
		name := "glob." + mangle(x.Pkg.Pkg.Path()+"."+x.Name())
		g.declare(name, fmt.Sprintf("(declare-const %s Int)\n(assert (> %s 0))", name, name))
		t := T{S: name, Sort: sPtr, GoT: x.Type()}
		g.vals[v] = t
		return t
	case *ssa.Function:
		g.ensureSort(sFn)
		name := "fn." + mangle(x.String())
		g.declare(name, fmt.Sprintf("(declare-const %s Fn)", name))
		return T{S: name, Sort: sFn, GoT: x.Type()}
	case *ssa.Builtin:
		g.ensureSort(sFn)
		return T{S: "fnnil", Sort: sFn}
	}
	// value used before definition (should not happen in topological processing except via havocked loop phis)
	s, sg := g.sortOf(v.Type())
	if s == "TUPLE" {
		return T{S: "TUPLE", Sort: s}
	}
	n := g.declConst("u."+mangle(v.Name()), s)
	t := T{S: n, Sort: s, Signed: sg, GoT: v.Type()}
	g.vals[v] = t
	g.warn("value %s used before definition in %s", v.Name(), g.fn.Name())
	return t
}

func (g *gen) setVal(v ssa.Value, term string) T {
	s, sg := g.sortOf(v.Type())
	n := g.define(mangle(v.Name()), s, term)
	t := T{S: n, Sort: s, Signed: sg, GoT: v.Type()}
	g.vals[v] = t
	return t
}

func (g *gen) freshVal(v ssa.Value) T {
	s, sg := g.sortOf(v.Type())
	if s == "TUPLE" {
		tup := v.Type().(*types.Tuple)
		var ts []T
		for i := 0; i < tup.Len(); i++ {
			ts = append(ts, g.freshOfType(tup.At(i).Type(), fmt.Sprintf("%s.%d", mangle(v.Name()), i)))
		}
		g.tuples[v] = ts
		t := T{S: "TUPLE", Sort: s}
		g.vals[v] = t
		return t
	}
	t := g.freshOfType(v.Type(), mangle(v.Name()))
	_ = sg
	g.vals[v] = t
	return t
}

func (g *gen) freshOfType(t types.Type, prefix string) T {
	s, sg := g.sortOf(t)
	n := g.declConst(prefix, s)
	r := T{S: n, Sort: s, Signed: sg, GoT: t}
	if s == sSlice {
		g.assume(g.wfSlice(n))
	}
	if s == sStr {
		g.assume(and(g.idxLe(g.idxLit(0), sx("gstr.len", n)), g.idxLe(sx("gstr.len", n), g.idxMaxLen())))
	}
	if s == sPtr && g.cur != nil {
		// allocator invariant: every pointer in existence is below the allocation counter
		g.assume(and(sx("<=", "0", n), sx("<", n, g.nalloc())))
	}
	return r
}

// ---------------------------------------------------------------- memory

// loadAt reads a value of Go type t stored at address p.
func (g *gen) loadAt(p string, t types.Type) string {
	t = types.Unalias(t)
	switch u := t.Underlying().(type) {
	case *types.Struct:
		if isErrorType(t) {
			break
		}
		name := g.structSort(t)
		args := []string{}
		for i, f := range g.structFields(u) {
			args = append(args, g.loadField(p, name, i, f))
		}
		if len(args) == 0 {
			args = []string{"true"}
		}
		return sx("mk."+name, args...)
	case *types.Array:
		es, _ := g.sortOf(u.Elem())
		h := g.heapSlice(es)
		return sx("select", g.comp(h, ""), p)
	}
	s, _ := g.sortOf(t)
	h := g.heapCell(s)
	return sx("select", g.comp(h, ""), p)
}

func (g *gen) subAddr(p, structName string, i int) string {
	fn := fmt.Sprintf("fa.%s.%d", structName, i)
	g.declare("atag", "(declare-fun atag (Int) Int)")
	if !g.declared[fn] {
		g.nfa++
		g.faTag[fn] = g.nfa
		g.declare(fn, fmt.Sprintf("(declare-fun %s (Int) Int)\n(declare-fun %s.inv (Int) Int)", fn, fn))
	}
	r := sx(fn, p)
	// sub-object addresses are injective; ranges of different sub-object functions are disjoint from
	// each other and from allocation addresses (tag 0).  Ground instances suffice: every such term
	// is built here.
	if !g.declared["fa!"+r] {
		g.declared["fa!"+r] = true
		g.assume(and(sx("=", sx("atag", r), fmt.Sprint(g.faTag[fn])), sx("=", sx(fn+".inv", r), p)))
	}
	if root, ok := g.addrRoot[p]; ok {
		g.noteAddr(r, root)
	}
	return r
}

func (g *gen) loadField(p, structName string, i int, f fieldInfo) string {
	switch f.Typ.Underlying().(type) {
	case *types.Struct, *types.Array:
		if !isErrorType(f.Typ) {
			return g.loadAt(g.subAddr(p, structName, i), f.Typ)
		}
	}
	h := g.heapField(structName, i, f.Sort)
	return sx("select", g.comp(h, ""), p)
}

func (g *gen) storeAt(p string, t types.Type, v string) {
	t = types.Unalias(t)
	switch u := t.Underlying().(type) {
	case *types.Struct:
		name := g.structSort(t)
		for i, f := range g.structFields(u) {
			g.storeField(p, name, i, f, sx(fmt.Sprintf("%s.%d", name, i), v))
		}
		return
	case *types.Array:
		es, _ := g.sortOf(u.Elem())
		h := g.heapSlice(es)
		g.setComp(h, sx("store", g.comp(h, ""), p, v))
		return
	}
	s, _ := g.sortOf(t)
	h := g.heapCell(s)
	g.setComp(h, sx("store", g.comp(h, ""), p, v))
}

func (g *gen) storeField(p, structName string, i int, f fieldInfo, v string) {
	switch f.Typ.Underlying().(type) {
	case *types.Struct, *types.Array:
		if !isErrorType(f.Typ) {
			g.storeAt(g.subAddr(p, structName, i), f.Typ, v)
			return
		}
	}
	h := g.heapField(structName, i, f.Sort)
	g.setComp(h, sx("store", g.comp(h, ""), p, v))
}

// loc describes where a pointer-typed SSA value points, when the engine knows it structurally.
type loc struct {
	kind   int // 1 field, 2 slice/array element
	p      string
	sname  string
	fidx   int
	f      fieldInfo
	reg    string
	idx    string
	elemT  types.Type
	elemS  string
}

func (g *gen) locOf(v ssa.Value) *loc {
	switch x := v.(type) {
	case *ssa.FieldAddr:
		pt := x.X.Type().Underlying().(*types.Pointer).Elem()
		st := pt.Underlying().(*types.Struct)
		name := g.structSort(pt)
		f := g.structFields(st)[x.Field]
		return &loc{kind: 1, p: g.operand(x.X).S, sname: name, fidx: x.Field, f: f}
	case *ssa.IndexAddr:
		idx := g.toIdx(g.val(x.Index))
		switch u := x.X.Type().Underlying().(type) {
		case *types.Slice:
			s := g.val(x.X).S
			es, _ := g.sortOf(u.Elem())
			return &loc{kind: 2, reg: sx("s.reg", s), idx: g.idxAdd(sx("s.off", s), idx), elemT: u.Elem(), elemS: es}
		case *types.Pointer:
			a := u.Elem().Underlying().(*types.Array)
			es, _ := g.sortOf(a.Elem())
			return &loc{kind: 2, reg: g.operand(x.X).S, idx: idx, elemT: a.Elem(), elemS: es}
		}
	}
	return nil
}

func (g *gen) elemAddr(reg, idx string) string {
	fn := "ea"
	g.declare(fn, fmt.Sprintf("(declare-fun ea (Int %s) Int)", g.idx))
	return sx(fn, reg, idx)
}

func (g *gen) load(ptr ssa.Value, t types.Type) string {
	if l := g.locOf(ptr); l != nil {
		switch l.kind {
		case 1:
			return g.loadField(l.p, l.sname, l.fidx, l.f)
		case 2:
			switch l.elemT.Underlying().(type) {
			case *types.Struct, *types.Array:
				if !isErrorType(l.elemT) {
					return g.loadAt(g.elemAddr(l.reg, l.idx), l.elemT)
				}
			}
			h := g.heapSlice(l.elemS)
			return sx("select", sx("select", g.comp(h, ""), l.reg), l.idx)
		}
	}
	if gl, ok := ptr.(*ssa.Global); ok {
		// package-level variables are read as immutable constants (D5)
		s, _ := g.sortOf(t)
		name := "gval." + mangle(gl.Pkg.Pkg.Path()+"."+gl.Name())
		g.ensureSort(s)
		g.declare(name, fmt.Sprintf("(declare-const %s %s)", name, s))
		if s == sErr {
			g.declare(name+"!nn", fmt.Sprintf("(assert (not (= %s errnil)))", name))
		}
		return name
	}
	return g.loadAt(g.val(ptr).S, t)
}

func (g *gen) store(ptr ssa.Value, t types.Type, v string) {
	if l := g.locOf(ptr); l != nil {
		switch l.kind {
		case 1:
			g.storeField(l.p, l.sname, l.fidx, l.f, v)
			return
		case 2:
			switch l.elemT.Underlying().(type) {
			case *types.Struct, *types.Array:
				if !isErrorType(l.elemT) {
					g.storeAt(g.elemAddr(l.reg, l.idx), l.elemT, v)
					return
				}
			}
			h := g.heapSlice(l.elemS)
			cur := g.comp(h, "")
			g.setComp(h, sx("store", cur, l.reg, sx("store", sx("select", cur, l.reg), l.idx, v)))
			return
		}
	}
	g.storeAt(g.val(ptr).S, t, v)
}

// pointer term of a FieldAddr/IndexAddr when it is used as a value (escapes)
func (g *gen) ptrTerm(v ssa.Value) string {
	if l := g.locOf(v); l != nil {
		switch l.kind {
		case 1:
			return g.subAddr(l.p, l.sname, l.fidx)
		case 2:
			return g.elemAddr(l.reg, l.idx)
		}
	}
	return g.val(v).S
}

// ---------------------------------------------------------------- havoc

// havocHeap replaces every heap component by a fresh one, keeping the contents of stable
// (non-escaping) local allocations.
func (g *gen) havocHeap(why string) {
	g.havocs++
	names := append([]string{}, g.compList...)
	sort.Strings(names)
	for _, name := range names {
		if !strings.HasPrefix(name, "H") {
			continue
		}
		old := g.comp(name, "")
		nw := g.declConst(strings.ReplaceAll(name, "@", "_")+".hv", g.compSort[name])
		for _, addr := range g.addrList {
			a := g.addrRoot[addr]
			if g.stable[a] || !g.escaped[a] {
				g.assume(sx("=", sx("select", nw, addr), sx("select", old, addr)))
			}
		}
		g.cur[name] = nw
	}
	// any call may allocate
	oldn := g.nalloc()
	nn := g.declConst("nalloc.hv", sInt)
	g.assume(sx(">=", nn, oldn))
	g.cur["nalloc"] = nn
}

// constArray: the all-zero array.  cvc5 accepts "as const" only with a value, so arrays of
// opaque element sorts are an unconstrained constant (an over-approximation).
func (g *gen) constArray(arrSort, es string, et types.Type) string {
	if isBV(es) || es == sBool || es == sInt || isFP(es) {
		return fmt.Sprintf("((as const %s) %s)", arrSort, g.zeroOfSort(es, et))
	}
	n := "zeroarr." + sortID(es)
	g.ensureSort(es)
	g.declare(n, fmt.Sprintf("(declare-const %s %s)", n, arrSort))
	return n
}

func (g *gen) noteAddr(addr string, root *ssa.Alloc) {
	if g.addrRoot == nil {
		g.addrRoot = map[string]*ssa.Alloc{}
	}
	if _, ok := g.addrRoot[addr]; !ok {
		g.addrRoot[addr] = root
		g.addrList = append(g.addrList, addr)
	}
}

// mapComps: heap components holding the content and the key set of every map with these sorts
// mapLenFn: uninterpreted size of a key set (Array K Bool); the empty set has size 0
func (g *gen) mapLenFn(ks string) string {
	fn := "maplen." + sortID(ks)
	g.declare(fn, fmt.Sprintf("(declare-fun %s ((Array %s Bool)) %s)\n(assert (= (%s ((as const (Array %s Bool)) false)) %s))", fn, ks, g.idx, fn, ks, g.idxLit(0)))
	return fn
}

func (g *gen) mapComps(mt *types.Map) (val, has string, ks, vs string) {
	ks, _ = g.sortOf(mt.Key())
	vs, _ = g.sortOf(mt.Elem())
	g.ensureSort(ks)
	g.ensureSort(vs)
	val = "HM." + sortID(ks) + "." + sortID(vs)
	has = "HMP." + sortID(ks)
	g.comp(val, fmt.Sprintf("(Array Int (Array %s %s))", ks, vs))
	g.comp(has, fmt.Sprintf("(Array Int (Array %s Bool))", ks))
	return
}
