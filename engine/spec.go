package main

import (
	"fmt"
	"go/ast"
	"go/constant"
	"go/token"
	"go/types"
	"strconv"
	"strings"

	"golang.org/x/tools/go/ssa"
)

// env: evaluation environment of a specification expression
type env struct {
	g       *gen
	vars    map[string]T
	state   map[string]string // current state (heap components, ghosts)
	old     map[string]string // state referred to by old(...)
	inOld   bool
	useInit bool
	assuming bool // the expression is being assumed (hypothesis), not proved
}

func (e *env) clone() *env {
	n := &env{g: e.g, vars: map[string]T{}, state: e.state, old: e.old, inOld: e.inOld, useInit: e.useInit, assuming: e.assuming}
	for k, v := range e.vars {
		n.vars[k] = v
	}
	return n
}

func (e *env) comp(name string) string {
	g := e.g
	if _, ok := g.compSort[name]; !ok {
		panic("spec: unknown component " + name)
	}
	st := e.state
	if e.inOld && e.old != nil {
		st = e.old
	}
	if v, ok := st[name]; ok {
		return v
	}
	if e.useInit {
		return name + "@0"
	}
	return g.compDef[name]
}

type specErr struct{ msg string }

func (g *gen) specBool(e *env, c *Clause) string {
	t := g.specExpr(e, c.Expr, sBool, c)
	if t.Sort != sBool {
		panic(specErr{fmt.Sprintf("%s:%d: clause %q is not boolean (sort %s)", c.File, c.Line, c.Text, t.Sort)})
	}
	return t.S
}

func (g *gen) specBoolText(e *env, text string) string {
	c, err := parseExprClause(text, "<builtin>", 0)
	if err != nil {
		panic(specErr{err.Error()})
	}
	return g.specBool(e, c)
}

func (g *gen) sortOfSpecType(t string) string {
	t = strings.TrimSpace(t)
	switch t {
	case "int":
		return g.idx
	case "mathint":
		return sInt
	case "bool":
		return sBool
	case "byte", "uint8":
		return bvSort(8)
	case "int8":
		return bvSort(8)
	case "uint16", "int16":
		return bvSort(16)
	case "uint32", "int32", "rune":
		return bvSort(32)
	case "uint64", "int64", "uint", "uintptr":
		return bvSort(64)
	case "float64":
		return sF64
	case "float32":
		return sF32
	case "string":
		g.ensureSort(sStr)
		return sStr
	case "error":
		g.ensureSort(sErr)
		return sErr
	case "[]byte", "[]int", "[]string":
		g.ensureSort(sSlice)
		return sSlice
	case "ptr":
		return sPtr
	case "iface":
		g.ensureSort(sIface)
		return sIface
	}
	if strings.HasPrefix(t, "map[") {
		// map[K]V  -> (Array K V) ; set[K] -> (Array K Bool)
		depth := 0
		for i := 3; i < len(t); i++ {
			if t[i] == '[' {
				depth++
			} else if t[i] == ']' {
				depth--
				if depth == 0 {
					return fmt.Sprintf("(Array %s %s)", g.sortOfSpecType(t[4:i]), g.sortOfSpecType(t[i+1:]))
				}
			}
		}
	}
	if strings.HasPrefix(t, "set[") && strings.HasSuffix(t, "]") {
		return fmt.Sprintf("(Array %s Bool)", g.sortOfSpecType(t[4:len(t)-1]))
	}
	if strings.HasPrefix(t, "U_") {
		g.ensureSort(t)
		return t
	}
	if gt := g.w.lookupGoType(t); gt != nil {
		s, _ := g.sortOf(gt)
		return s
	}
	// a Go type of the package under contract
	if g.fn != nil && g.fn.Pkg != nil {
		if obj := g.fn.Pkg.Pkg.Scope().Lookup(t); obj != nil {
			if tn, ok := obj.(*types.TypeName); ok {
				s, _ := g.sortOf(tn.Type())
				return s
			}
		}
	}
	panic(specErr{"unknown spec type " + t})
}

func specTypeSigned(t string) bool {
	switch strings.TrimSpace(t) {
	case "int", "int8", "int16", "int32", "int64", "rune", "mathint", "float64", "float32":
		return true
	}
	return false
}

func (g *gen) litOfSort(v constant.Value, want string) (T, bool) {
	switch {
	case want == sInt:
		if i, ok := constant.Int64Val(constant.ToInt(v)); ok {
			return T{S: g.idxLitInt(i), Sort: sInt, Signed: true}, true
		}
	case isBV(want):
		iv := constant.ToInt(v)
		if iv.Kind() != constant.Int {
			return T{}, false
		}
		if i, ok := constant.Int64Val(iv); ok {
			return T{S: bvLit(uint64(i), bvWidth(want)), Sort: want}, true
		}
		if u, ok := constant.Uint64Val(iv); ok {
			return T{S: bvLit(u, bvWidth(want)), Sort: want}, true
		}
	case isFP(want):
		return T{S: g.constVal(v, want, nil), Sort: want, Signed: true}, true
	}
	return T{}, false
}

// constExpr tries to evaluate an expression made of literals and package constants.
func (g *gen) constExpr(x ast.Expr) (constant.Value, bool) {
	switch n := x.(type) {
	case *ast.BasicLit:
		return constant.MakeFromLiteral(n.Value, n.Kind, 0), true
	case *ast.ParenExpr:
		return g.constExpr(n.X)
	case *ast.Ident:
		if g.fn != nil && g.fn.Pkg != nil {
			if obj := g.fn.Pkg.Pkg.Scope().Lookup(n.Name); obj != nil {
				if c, ok := obj.(*types.Const); ok {
					return c.Val(), true
				}
			}
		}
		if g.w.lemmaPkg != nil {
			if obj := g.w.lemmaPkg.Scope().Lookup(n.Name); obj != nil {
				if c, ok := obj.(*types.Const); ok {
					return c.Val(), true
				}
			}
		}
	case *ast.SelectorExpr:
		if id, ok := n.X.(*ast.Ident); ok {
			if p := g.w.importedPkg(g.pkgTypes(), id.Name); p != nil {
				if obj := p.Scope().Lookup(n.Sel.Name); obj != nil {
					if c, ok := obj.(*types.Const); ok {
						return c.Val(), true
					}
				}
			}
		}
	case *ast.UnaryExpr:
		if v, ok := g.constExpr(n.X); ok && (n.Op == token.SUB || n.Op == token.ADD) && (v.Kind() == constant.Int || v.Kind() == constant.Float) {
			return constant.UnaryOp(n.Op, v, 0), true
		}
	case *ast.BinaryExpr:
		a, ok1 := g.constExpr(n.X)
		b, ok2 := g.constExpr(n.Y)
		if ok1 && ok2 && a.Kind() == constant.Int && b.Kind() == constant.Int {
			switch n.Op {
			case token.ADD, token.SUB, token.MUL:
				return constant.BinaryOp(a, n.Op, b), true
			case token.SHL:
				if s, ok := constant.Uint64Val(b); ok {
					return constant.Shift(a, token.SHL, uint(s)), true
				}
			}
		}
	}
	return nil, false
}

func (g *gen) pkgTypes() *types.Package {
	if g.specPkg != nil {
		return g.specPkg
	}
	if g.fn != nil && g.fn.Pkg != nil {
		return g.fn.Pkg.Pkg
	}
	return g.w.lemmaPkg
}

// specExpr translates a specification expression; want is the expected sort ("" = unknown).
func (g *gen) specExpr(e *env, x ast.Expr, want string, c *Clause) T {
	fail := func(f string, a ...any) T {
		panic(specErr{fmt.Sprintf("%s:%d: in %q: %s", c.File, c.Line, c.Text, fmt.Sprintf(f, a...))})
	}
	// constants adapt to the wanted sort
	if cv, ok := g.constExpr(x); ok {
		if id, isId := x.(*ast.Ident); !isId || e.vars[id.Name].S == "" {
			if want != "" {
				if t, ok := g.litOfSort(cv, want); ok {
					return t
				}
			}
			switch cv.Kind() {
			case constant.Int:
				// typed package constants carry their type
				if id, ok := x.(*ast.Ident); ok {
					if obj := g.pkgTypes().Scope().Lookup(id.Name); obj != nil {
						if b, ok := obj.Type().Underlying().(*types.Basic); ok && b.Info()&types.IsUntyped == 0 {
							s, sg := g.sortOf(obj.Type())
							if t, ok := g.litOfSort(cv, s); ok {
								t.Signed = sg
								return t
							}
						}
					}
				}
				if sel, ok := x.(*ast.SelectorExpr); ok {
					if id, ok := sel.X.(*ast.Ident); ok {
						if p := g.w.importedPkg(g.pkgTypes(), id.Name); p != nil {
							if obj := p.Scope().Lookup(sel.Sel.Name); obj != nil {
								if b, ok := obj.Type().Underlying().(*types.Basic); ok && b.Info()&types.IsUntyped == 0 {
									s, sg := g.sortOf(obj.Type())
									if t, ok := g.litOfSort(cv, s); ok {
										t.Signed = sg
										t.GoT = obj.Type()
										return t
									}
								}
							}
						}
					}
				}
				if t, ok := g.litOfSort(cv, g.idx); ok {
					t.Signed = true
					return t
				}
			case constant.Float:
				t, _ := g.litOfSort(cv, sF64)
				return t
			case constant.String:
				return T{S: g.strLit(constant.StringVal(cv)), Sort: sStr}
			case constant.Bool:
				if constant.BoolVal(cv) {
					return T{S: "true", Sort: sBool}
				}
				return T{S: "false", Sort: sBool}
			}
		}
	}
	switch n := x.(type) {
	case *ast.ParenExpr:
		return g.specExpr(e, n.X, want, c)
	case *ast.Ident:
		switch n.Name {
		case "true":
			return T{S: "true", Sort: sBool}
		case "false":
			return T{S: "false", Sort: sBool}
		case "nil":
			switch want {
			case sErr:
				return T{S: "errnil", Sort: sErr}
			case sIface:
				return T{S: "ifnil", Sort: sIface}
			case sFn:
				return T{S: "fnnil", Sort: sFn}
			case sSlice:
				return T{S: g.zeroOfSort(sSlice, nil), Sort: sSlice}
			case sPtr, "":
				return T{S: "0", Sort: sPtr}
			}
			return T{S: g.zeroOfSort(want, nil), Sort: want}
		}
		if e.inOld {
			if v, ok := g.params[n.Name]; ok {
				return v
			}
		}
		if v, ok := e.vars[n.Name]; ok {
			if v.AddrOf {
				if pt, ok := v.GoT.Underlying().(*types.Pointer); ok {
					return g.specLoad(e, v.S, pt.Elem())
				}
			}
			return v
		}
		for _, gh := range g.unit.Ghosts {
			if gh.Name == n.Name {
				name := g.ghostComp(gh)
				return T{S: e.comp(name), Sort: g.compSort[name], Signed: specTypeSigned(gh.Type)}
			}
		}
		if n.Name == "nalloc" {
			g.nalloc()
			return T{S: e.comp("nalloc"), Sort: sInt}
		}
		// package-level variable (read as an immutable constant)
		if pk := g.pkgTypes(); pk != nil {
			if obj := pk.Scope().Lookup(n.Name); obj != nil {
				if v, ok := obj.(*types.Var); ok {
					return g.globalVal(pk.Path(), v)
				}
			}
		}
		return fail("unknown identifier %s", n.Name)
	case *ast.BasicLit:
		cv := constant.MakeFromLiteral(n.Value, n.Kind, 0)
		if t, ok := g.litOfSort(cv, want); ok {
			return t
		}
		return fail("literal %s does not fit sort %s", n.Value, want)
	case *ast.UnaryExpr:
		switch n.Op {
		case token.NOT:
			return T{S: not(g.specExpr(e, n.X, sBool, c).S), Sort: sBool}
		case token.SUB:
			v := g.specExpr(e, n.X, want, c)
			switch {
			case v.Sort == sInt:
				return T{S: sx("-", v.S), Sort: sInt, Signed: true}
			case isFP(v.Sort):
				return T{S: sx("fp.neg", v.S), Sort: v.Sort, Signed: true}
			}
			return T{S: sx("bvneg", v.S), Sort: v.Sort, Signed: v.Signed}
		case token.XOR:
			v := g.specExpr(e, n.X, want, c)
			return T{S: sx("bvnot", v.S), Sort: v.Sort, Signed: v.Signed}
		}
	case *ast.BinaryExpr:
		switch n.Op {
		case token.LAND:
			return T{S: and(g.specExpr(e, n.X, sBool, c).S, g.specExpr(e, n.Y, sBool, c).S), Sort: sBool}
		case token.LOR:
			return T{S: or(g.specExpr(e, n.X, sBool, c).S, g.specExpr(e, n.Y, sBool, c).S), Sort: sBool}
		}
		var a, b T
		_, aconst := g.constExpr(n.X)
		if id, ok := n.X.(*ast.Ident); ok && (e.vars[id.Name].S != "" || id.Name == "nil") {
			aconst = id.Name == "nil"
		}
		isShift := n.Op == token.SHL || n.Op == token.SHR
		if isShift {
			a = g.specExpr(e, n.X, want, c)
			b = g.specExpr(e, n.Y, a.Sort, c)
		} else if aconst {
			b = g.specExpr(e, n.Y, "", c)
			a = g.specExpr(e, n.X, b.Sort, c)
			a.Signed = b.Signed
		} else {
			w := ""
			switch n.Op {
			case token.ADD, token.SUB, token.MUL, token.QUO, token.REM, token.AND, token.OR, token.XOR, token.AND_NOT:
				w = want
			}
			a = g.specExpr(e, n.X, w, c)
			b = g.specExpr(e, n.Y, a.Sort, c)
			if _, bc := g.constExpr(n.Y); bc {
				b.Signed = a.Signed
			}
		}
		if a.Sort != b.Sort && !isShift {
			return fail("operands of %s have sorts %s and %s", n.Op, a.Sort, b.Sort)
		}
		t, ok := g.binop(n.Op, a, b)
		if !ok {
			return fail("operator %s not supported on sort %s", n.Op, a.Sort)
		}
		switch n.Op {
		case token.EQL, token.NEQ, token.LSS, token.LEQ, token.GTR, token.GEQ:
			return T{S: t, Sort: sBool}
		}
		// the Go type of an arithmetic result is that of its typed operand (box(a + b) needs it)
		rt := a.GoT
		if rt == nil {
			rt = b.GoT
		}
		return T{S: t, Sort: a.Sort, Signed: a.Signed, GoT: rt}
	case *ast.IndexExpr:
		base := g.specExpr(e, n.X, "", c)
		switch {
		case base.Sort == sSlice:
			i := g.specExpr(e, n.Index, g.idx, c)
			es := bvSort(8)
			var et types.Type
			if base.GoT != nil {
				if st, ok := base.GoT.Underlying().(*types.Slice); ok {
					es, _ = g.sortOf(st.Elem())
					et = st.Elem()
				}
			}
			if et != nil {
				switch et.Underlying().(type) {
				case *types.Struct, *types.Array:
					if !isErrorType(et) {
						// elements that are structs live at their element address (as in load/store)
						return g.specLoad(e, g.elemAddr(sx("s.reg", base.S), g.idxAdd(sx("s.off", base.S), g.toIdx(i))), et)
					}
				}
			}
			h := g.heapSlice(es)
			_, sg := sBool, false
			if et != nil {
				_, sg = g.sortOf(et)
			}
			return T{S: sx("select", sx("select", e.comp(h), sx("s.reg", base.S)), g.idxAdd(sx("s.off", base.S), g.toIdx(i))), Sort: es, Signed: sg, GoT: et}
		case strings.HasPrefix(base.Sort, "(Array "):
			ks, vs := arraySorts(base.Sort)
			i := g.specExpr(e, n.Index, ks, c)
			return T{S: sx("select", base.S, i.S), Sort: vs}
		case base.Sort == sStr:
			i := g.specExpr(e, n.Index, g.idx, c)
			return T{S: sx("gstr.at", base.S, g.toIdx(i)), Sort: bvSort(8)}
		}
		return fail("cannot index sort %s", base.Sort)
	case *ast.SliceExpr:
		base := g.specExpr(e, n.X, sSlice, c)
		if base.Sort != sSlice {
			return fail("cannot slice sort %s", base.Sort)
		}
		lo := g.idxLit(0)
		hi := sx("s.len", base.S)
		if n.Low != nil {
			lo = g.toIdx(g.specExpr(e, n.Low, g.idx, c))
		}
		if n.High != nil {
			hi = g.toIdx(g.specExpr(e, n.High, g.idx, c))
		}
		return T{S: sx("mk-slice", sx("s.reg", base.S), g.idxAdd(sx("s.off", base.S), lo), g.idxSub(hi, lo)), Sort: sSlice, GoT: base.GoT}
	case *ast.SelectorExpr:
		// pkg.Name (global variable) or x.field
		if id, ok := n.X.(*ast.Ident); ok && e.vars[id.Name].S == "" {
			if p := g.w.importedPkg(g.pkgTypes(), id.Name); p != nil {
				if obj := p.Scope().Lookup(n.Sel.Name); obj != nil {
					if v, ok := obj.(*types.Var); ok {
						return g.globalVal(p.Path(), v)
					}
				}
				return fail("unknown %s.%s", id.Name, n.Sel.Name)
			}
		}
		base := g.specExpr(e, n.X, "", c)
		if base.GoT == nil {
			return fail("no Go type known for %s", exprString(n.X))
		}
		return g.specField(e, base, n.Sel.Name, c)
	case *ast.StarExpr:
		base := g.specExpr(e, n.X, sPtr, c)
		if base.GoT == nil {
			return fail("no Go type for deref")
		}
		pt, ok := base.GoT.Underlying().(*types.Pointer)
		if !ok {
			return fail("deref of non-pointer")
		}
		return g.specLoad(e, base.S, pt.Elem())
	case *ast.CallExpr:
		return g.specCall(e, n, want, c)
	}
	return fail("unsupported expression %T", x)
}

func (g *gen) globalVal(pkgPath string, v *types.Var) T {
	s, sg := g.sortOf(v.Type())
	name := "gval." + mangle(pkgPath+"."+v.Name())
	g.ensureSort(s)
	g.declare(name, fmt.Sprintf("(declare-const %s %s)", name, s))
	if s == sErr {
		g.declare(name+"!nn", fmt.Sprintf("(assert (not (= %s errnil)))", name))
	}
	return T{S: name, Sort: s, Signed: sg, GoT: v.Type()}
}

func arraySorts(s string) (string, string) {
	// (Array K V) with possibly nested parens
	body := strings.TrimSuffix(strings.TrimPrefix(s, "(Array "), ")")
	depth := 0
	for i := 0; i < len(body); i++ {
		switch body[i] {
		case '(':
			depth++
		case ')':
			depth--
		case ' ':
			if depth == 0 {
				return body[:i], body[i+1:]
			}
		}
	}
	return body, ""
}

func exprString(x ast.Expr) string {
	switch n := x.(type) {
	case *ast.Ident:
		return n.Name
	case *ast.SelectorExpr:
		return exprString(n.X) + "." + n.Sel.Name
	case *ast.IndexExpr:
		return exprString(n.X) + "[" + exprString(n.Index) + "]"
	}
	return fmt.Sprintf("%T", x)
}

// specLoad reads a value of type t at address p in the environment's heap
func (g *gen) specLoad(e *env, p string, t types.Type) T {
	// temporarily evaluate loads against the environment's state
	saved := g.cur
	st := e.state
	if e.inOld && e.old != nil {
		st = e.old
	}
	tmp := map[string]string{}
	for k, v := range st {
		tmp[k] = v
	}
	if e.useInit {
		for _, cname := range g.compList {
			if _, ok := tmp[cname]; !ok {
				tmp[cname] = cname + "@0"
			}
		}
	}
	g.cur = tmp
	term := g.loadAt(p, t)
	// components created lazily during loadAt read their default value
	g.cur = saved
	s, sg := g.sortOf(t)
	return T{S: term, Sort: s, Signed: sg, GoT: t}
}

func (g *gen) specField(e *env, base T, field string, c *Clause) T {
	t := types.Unalias(base.GoT)
	isPtr := false
	if p, ok := t.Underlying().(*types.Pointer); ok {
		t = p.Elem()
		isPtr = true
	}
	st, ok := t.Underlying().(*types.Struct)
	if !ok {
		panic(specErr{fmt.Sprintf("%s:%d: %s is not a struct", c.File, c.Line, types.TypeString(t, nil))})
	}
	for i := 0; i < st.NumFields(); i++ {
		f := st.Field(i)
		if f.Name() != field {
			continue
		}
		name := g.structSort(t)
		fs := g.structFields(st)[i]
		if isPtr {
			saved := g.cur
			stt := e.state
			if e.inOld && e.old != nil {
				stt = e.old
			}
			tmp := map[string]string{}
			for k, v := range stt {
				tmp[k] = v
			}
			if e.useInit {
				for _, cname := range g.compList {
					if _, ok := tmp[cname]; !ok {
						tmp[cname] = cname + "@0"
					}
				}
			}
			g.cur = tmp
			term := g.loadField(base.S, name, i, fs)
			g.cur = saved
			return T{S: term, Sort: fs.Sort, Signed: fs.Signed, GoT: f.Type()}
		}
		return T{S: sx(fmt.Sprintf("%s.%d", name, i), base.S), Sort: fs.Sort, Signed: fs.Signed, GoT: f.Type()}
	}
	panic(specErr{fmt.Sprintf("%s:%d: no field %s in %s", c.File, c.Line, field, types.TypeString(t, nil))})
}

func (g *gen) specCall(e *env, n *ast.CallExpr, want string, c *Clause) T {
	fail := func(f string, a ...any) T {
		panic(specErr{fmt.Sprintf("%s:%d: in %q: %s", c.File, c.Line, c.Text, fmt.Sprintf(f, a...))})
	}
	name := ""
	switch f := n.Fun.(type) {
	case *ast.Ident:
		name = f.Name
	case *ast.ArrayType:
		name = "[]byte"
	case *ast.SelectorExpr:
		name = exprString(f)
	}
	arg := func(i int, w string) T { return g.specExpr(e, n.Args[i], w, c) }
	switch name {
	case "old":
		ne := e.clone()
		ne.inOld = true
		return g.specExpr(ne, n.Args[0], want, c)
	case "implies":
		return T{S: implies(arg(0, sBool).S, arg(1, sBool).S), Sort: sBool}
	case "ite":
		cnd := arg(0, sBool)
		a := g.specExpr(e, n.Args[1], want, c)
		b := g.specExpr(e, n.Args[2], a.Sort, c)
		return T{S: sx("ite", cnd.S, a.S, b.S), Sort: a.Sort, Signed: a.Signed, GoT: a.GoT}
	case "forall", "exists":
		// forall(i, body) | forall(i, range, body) ; i may be written T(i) to give it type T
		vname, vsort, signed := "", g.idx, true
		switch v := n.Args[0].(type) {
		case *ast.Ident:
			vname = v.Name
		case *ast.CallExpr:
			if id, ok := v.Fun.(*ast.Ident); ok && len(v.Args) == 1 {
				vname = v.Args[0].(*ast.Ident).Name
				vsort = g.sortOfSpecType(id.Name)
				signed = specTypeSigned(id.Name)
			} else if _, ok := v.Fun.(*ast.ArrayType); ok {
				vname = v.Args[0].(*ast.Ident).Name
				vsort = sSlice
			}
		}
		if vname == "" {
			return fail("bad bound variable")
		}
		ne := e.clone()
		bv := fmt.Sprintf("%s!q%d", vname, g.n)
		g.n++
		ne.vars[vname] = T{S: bv, Sort: vsort, Signed: signed}
		var body string
		if len(n.Args) == 3 {
			r := g.specExpr(ne, n.Args[1], sBool, c).S
			b := g.specExpr(ne, n.Args[2], sBool, c).S
			if name == "forall" {
				body = implies(r, b)
			} else {
				body = and(r, b)
			}
		} else {
			body = g.specExpr(ne, n.Args[1], sBool, c).S
		}
		if vsort == sSlice {
			if name == "forall" {
				body = implies(g.wfSlice(bv), body)
			} else {
				body = and(g.wfSlice(bv), body)
			}
		}
		return T{S: fmt.Sprintf("(%s ((%s %s)) %s)", name, bv, vsort, body), Sort: sBool}
	case "all", "any":
		// all(i, lo, hi, body): finite expansion over the constant range lo <= i < hi
		if len(n.Args) != 4 {
			return fail("%s(i, lo, hi, body)", name)
		}
		id, ok := n.Args[0].(*ast.Ident)
		lo, ok1 := g.constExpr(n.Args[1])
		hi, ok2 := g.constExpr(n.Args[2])
		if !ok || !ok1 || !ok2 {
			return fail("%s needs an identifier and constant bounds", name)
		}
		l, _ := constant.Int64Val(lo)
		h, _ := constant.Int64Val(hi)
		var parts []string
		for k := l; k < h; k++ {
			ne := e.clone()
			ne.vars[id.Name] = T{S: g.idxLit(k), Sort: g.idx, Signed: true}
			parts = append(parts, g.specExpr(ne, n.Args[3], sBool, c).S)
		}
		if name == "all" {
			return T{S: and(parts...), Sort: sBool}
		}
		return T{S: or(parts...), Sort: sBool}
	case "len":
		a := arg(0, "")
		switch a.Sort {
		case sSlice:
			return T{S: sx("s.len", a.S), Sort: g.idx, Signed: true}
		case sStr:
			return T{S: sx("gstr.len", a.S), Sort: g.idx, Signed: true}
		}
		if a.GoT != nil {
			if mt, ok := a.GoT.Underlying().(*types.Map); ok {
				_, hc, ks, _ := g.mapComps(mt)
				return T{S: sx(g.mapLenFn(ks), sx("select", e.comp(hc), a.S)), Sort: g.idx, Signed: true}
			}
		}
		return fail("len of sort %s", a.Sort)
	case "isnil":
		a := arg(0, "")
		if a.Sort == sSlice {
			// as the code compares a slice with nil: the nil slice has region 0
			return T{S: sx("=", sx("s.reg", a.S), "0"), Sort: sBool}
		}
		return T{S: sx("=", a.S, g.zeroOfSort(a.Sort, nil)), Sort: sBool}
	case "is":
		a := arg(0, sErr)
		b := arg(1, sErr)
		g.declare("errIs", "(declare-fun errIs (Err Err) Bool)")
		return T{S: and(not(sx("=", a.S, "errnil")), sx("errIs", a.S, b.S)), Sort: sBool}
	case "fresh":
		a := arg(0, sSlice)
		ne := e.clone()
		ne.inOld = true
		g.nalloc()
		return T{S: sx(">=", sx("s.reg", a.S), ne.comp("nalloc")), Sort: sBool}
	case "eqbytes", "eqbytesold":
		// eqbytes(x, xo, y, yo, n): x[xo+k] == y[yo+k] for 0 <= k < n, phrased over the absolute index
		// of x's region so that any read of that region triggers it
		x, y := arg(0, sSlice), arg(2, sSlice)
		xo, yo, cnt := g.toIdx(arg(1, g.idx)), g.toIdx(arg(3, g.idx)), g.toIdx(arg(4, g.idx))
		h := g.heapSlice(bvSort(8))
		hx := e.comp(h)
		hy := hx
		if name == "eqbytesold" {
			ne := e.clone()
			ne.inOld = true
			hy = ne.comp(h)
		}
		j := fmt.Sprintf("j!q%d", g.n)
		g.n++
		if !e.assuming {
			// as a goal: element-wise form (skolemises to a single index)
			rx := sx("select", sx("select", hx, sx("s.reg", x.S)), g.idxAdd(sx("s.off", x.S), g.idxAdd(xo, j)))
			ry := sx("select", sx("select", hy, sx("s.reg", y.S)), g.idxAdd(sx("s.off", y.S), g.idxAdd(yo, j)))
			return T{S: fmt.Sprintf("(forall ((%s %s)) (=> (and %s %s) (= %s %s)))", j, g.idx, g.idxLe(g.idxLit(0), j), g.idxLt(j, cnt), rx, ry), Sort: sBool}
		}
		lo := g.idxAdd(sx("s.off", x.S), xo)
		rx := sx("select", sx("select", hx, sx("s.reg", x.S)), j)
		ry := sx("select", sx("select", hy, sx("s.reg", y.S)), g.idxAdd(g.idxSub(j, lo), g.idxAdd(sx("s.off", y.S), yo)))
		return T{S: fmt.Sprintf("(forall ((%s %s)) (! (=> (and %s %s) (= %s %s)) :pattern (%s)))", j, g.idx, g.idxLe(lo, j), g.idxLt(j, g.idxAdd(lo, cnt)), rx, ry, rx), Sort: sBool}
	case "extends":
		// extends(r, b): r is b with elements appended: same offset in the model, and the backing
		// arrays agree on every index below the end of b (the shape append produces)
		x, y := arg(0, sSlice), arg(1, sSlice)
		h := g.heapSlice(bvSort(8))
		if x.GoT != nil {
			if st, ok := x.GoT.Underlying().(*types.Slice); ok {
				es, _ := g.sortOf(st.Elem())
				h = g.heapSlice(es)
			}
		}
		hx := e.comp(h)
		j := fmt.Sprintf("j!q%d", g.n)
		g.n++
		end := g.idxAdd(sx("s.off", y.S), sx("s.len", y.S))
		rx := sx("select", sx("select", hx, sx("s.reg", x.S)), j)
		ry := sx("select", sx("select", hx, sx("s.reg", y.S)), j)
		q := fmt.Sprintf("(forall ((%s %s)) (! (=> %s (= %s %s)) :pattern (%s)))", j, g.idx, g.idxLt(j, end), rx, ry, rx)
		return T{S: and(sx("=", sx("s.off", x.S), sx("s.off", y.S)), g.idxLe(sx("s.len", y.S), sx("s.len", x.S)), q), Sort: sBool}
	case "callarg":
		// callarg(callee, ordinal, index): the index-th actual argument (receiver first) of that call
		if len(n.Args) != 3 {
			return fail("callarg(callee, ordinal, index)")
		}
		cn := exprString(n.Args[0])
		ov, ok1 := g.constExpr(n.Args[1])
		iv, ok2 := g.constExpr(n.Args[2])
		if !ok1 || !ok2 {
			return fail("callarg needs constant ordinal and index")
		}
		o, _ := constant.Int64Val(ov)
		i, _ := constant.Int64Val(iv)
		as, ok := lookupCall(g.callArgsRec, cn, o)
		if !ok || int(i) >= len(as) {
			return fail("no recorded argument %d of call#%d %s at this point", i, o, cn)
		}
		return as[i]
	case "res":
		// res(callee, ordinal, index): the index-th result of the ordinal-th call of callee so far
		if len(n.Args) != 3 {
			return fail("res(callee, ordinal, index)")
		}
		cn := exprString(n.Args[0])
		ov, ok1 := g.constExpr(n.Args[1])
		iv, ok2 := g.constExpr(n.Args[2])
		if !ok1 || !ok2 {
			return fail("res needs constant ordinal and index")
		}
		o, _ := constant.Int64Val(ov)
		i, _ := constant.Int64Val(iv)
		rs, ok := lookupCall(g.callResults, cn, o)
		if !ok || int(i) >= len(rs) {
			return fail("no recorded result %d of call#%d %s at this point", i, o, cn)
		}
		return rs[i]
	case "as":
		// as(x, *T): the pointer boxed in interface value x, typed so that its fields can be read
		if len(n.Args) != 2 {
			return fail("as(x, *T)")
		}
		x := arg(0, sIface)
		tname := ""
		ptr := false
		switch tt := n.Args[1].(type) {
		case *ast.StarExpr:
			ptr = true
			tname = exprString(tt.X)
		default:
			tname = exprString(n.Args[1])
		}
		var gt types.Type
		if strings.Contains(tname, ".") {
			gt = g.w.lookupGoType(tname)
		} else if pk := g.pkgTypes(); pk != nil {
			if obj, ok := pk.Scope().Lookup(tname).(*types.TypeName); ok {
				gt = obj.Type()
			}
		}
		if gt == nil && !ptr {
			gt = g.specGoType(n.Args[1])
		}
		if gt == nil {
			return fail("as: unknown type %s", tname)
		}
		if ptr {
			gt = types.NewPointer(gt)
		}
		ts, _ := g.sortOf(gt)
		fn := "box." + sortID(ts)
		g.declare(fn, fmt.Sprintf("(declare-fun %s (%s) Iface)\n(declare-fun un%s (Iface) %s)", fn, ts, fn, ts))
		return T{S: sx("un"+fn, x.S), Sort: ts, GoT: gt}
	case "hastype":
		x := arg(0, sIface)
		tname := ""
		ptr := false
		switch tt := n.Args[1].(type) {
		case *ast.StarExpr:
			ptr = true
			tname = exprString(tt.X)
		default:
			tname = exprString(n.Args[1])
		}
		var gt types.Type
		if strings.Contains(tname, ".") {
			gt = g.w.lookupGoType(tname)
		} else if pk := g.pkgTypes(); pk != nil {
			if obj, ok := pk.Scope().Lookup(tname).(*types.TypeName); ok {
				gt = obj.Type()
			}
		}
		if gt == nil {
			return fail("hastype: unknown type %s", tname)
		}
		if ptr {
			gt = types.NewPointer(gt)
		}
		g.declare("itag", "(declare-fun itag (Iface) Int)")
		return T{S: and(not(sx("=", x.S, "ifnil")), sx("=", sx("itag", x.S), fmt.Sprint(g.w.typeID(gt)))), Sort: sBool}
	case "box":
		// box(x): x converted to an interface value (what MakeInterface produces)
		v := arg(0, "")
		g.ensureSort(v.Sort)
		fn, _ := g.boxFns(v.Sort, v.GoT)
		return T{S: sx(fn, v.S), Sort: sIface}
	case "iterfresh":
		// iterfresh(p): the pointer p was allocated in the current iteration of the innermost loop around the
		// current point (so it cannot be a pointer that an earlier iteration stored somewhere)
		a := arg(0, sPtr)
		var best *ssa.BasicBlock
		for h, body := range g.ci.body {
			if body[g.curBlock] && (best == nil || len(body) < len(g.ci.body[best])) {
				best = h
			}
		}
		if best == nil || g.loopNalloc[best] == "" {
			return fail("iterfresh: not inside a loop")
		}
		return T{S: sx(">=", a.S, g.loopNalloc[best]), Sort: sBool}
	case "called":
		// called(callee, k): the k-th call of callee (source order) in this body was executed on the path
		// to the current point
		if len(n.Args) != 2 {
			return fail("called(callee, k)")
		}
		cv, ok := g.constExpr(n.Args[1])
		if !ok {
			return fail("called: constant ordinal expected")
		}
		kk, _ := constant.Int64Val(cv)
		ckey := fmt.Sprintf("%s#%d", exprString(n.Args[0]), kk)
		if _, ok := g.callReach[ckey]; !ok {
			// instantiations of generic functions are recorded as name[type arguments]
			cnt := 0
			for k := range g.callReach {
				if strings.HasPrefix(k, exprString(n.Args[0])+"[") && strings.HasSuffix(k, fmt.Sprintf("#%d", kk)) {
					ckey = k
					cnt++
				}
			}
			if cnt > 1 {
				return fail("called: %s#%d is ambiguous", exprString(n.Args[0]), kk)
			}
		}
		cr, ok := g.callReach[ckey]
		if !ok {
			return T{S: "false", Sort: sBool} // no such call in this body
		}
		// a call in a block that strictly dominates the current one was executed on every path to the current
		// point (loops are cut at their heads, so the path variable of an earlier block is not known there)
		if cb := g.callBlock[ckey]; cb != nil && g.curBlock != nil && cb != g.curBlock && cb.Dominates(g.curBlock) {
			return T{S: "true", Sort: sBool}
		}
		return T{S: cr, Sort: sBool}
	case "exhausted":
		// exhausted(k): the current point was reached through the normal exit of loop k (its header's exit
		// edge: every element visited), not through a break or return inside its body; false when unknown
		if len(n.Args) != 1 {
			return fail("exhausted(k)")
		}
		cv, ok := g.constExpr(n.Args[0])
		if !ok {
			return fail("exhausted: constant loop ordinal expected")
		}
		kk, _ := constant.Int64Val(cv)
		var h *ssa.BasicBlock
		for hb, o := range g.loopOrd {
			if o == int(kk) {
				h = hb
			}
		}
		if h == nil {
			return fail("exhausted: no loop %d", kk)
		}
		return T{S: g.viaLoopExit(h, g.curBlock, map[*ssa.BasicBlock]string{}), Sort: sBool}
	case "maphas", "mapget":
		// maphas(m, k) / mapget(m, k): key set and content of a Go map in the environment's heap
		m := arg(0, sPtr)
		if m.GoT == nil {
			return fail("%s: no Go type for the map", name)
		}
		mt, ok := m.GoT.Underlying().(*types.Map)
		if !ok {
			return fail("%s: not a map", name)
		}
		vc, hc, ks, vs := g.mapComps(mt)
		k := arg(1, ks)
		if name == "maphas" {
			return T{S: sx("select", sx("select", e.comp(hc), m.S), k.S), Sort: sBool}
		}
		_, sg := g.sortOf(mt.Elem())
		// as the Go lookup m[k]: the zero value for an absent key
		has := sx("select", sx("select", e.comp(hc), m.S), k.S)
		return T{S: sx("ite", has, sx("select", sx("select", e.comp(vc), m.S), k.S), g.zeroOfSort(vs, mt.Elem())), Sort: vs, Signed: sg, GoT: mt.Elem()}
	case "sameslice":
		a, b := arg(0, sSlice), arg(1, sSlice)
		return T{S: sx("=", a.S, b.S), Sort: sBool}
	case "reg":
		a := arg(0, sSlice)
		return T{S: sx("s.reg", a.S), Sort: sInt}
	case "off":
		a := arg(0, sSlice)
		return T{S: sx("s.off", a.S), Sort: g.idx, Signed: true}
	case "isnan":
		a := arg(0, "")
		return T{S: sx("fp.isNaN", a.S), Sort: sBool}
	case "isinf":
		a := arg(0, "")
		return T{S: sx("fp.isInfinite", a.S), Sort: sBool}
	case "iszero":
		a := arg(0, "")
		return T{S: sx("fp.isZero", a.S), Sort: sBool}
	case "isneg":
		a := arg(0, "")
		return T{S: sx("fp.isNegative", a.S), Sort: sBool}
	case "fbits64": // IEEE bit pattern of a non-NaN float64 (uninterpreted inverse of to_fp)
		a := arg(0, sF64)
		g.declare("fbits64", "(declare-fun fbits64 ((_ FloatingPoint 11 53)) (_ BitVec 64))\n(assert (forall ((f (_ FloatingPoint 11 53))) (! (=> (not (fp.isNaN f)) (= ((_ to_fp 11 53) (fbits64 f)) f)) :pattern ((fbits64 f)))))\n(assert (forall ((u (_ BitVec 64))) (! (=> (not (fp.isNaN ((_ to_fp 11 53) u))) (= (fbits64 ((_ to_fp 11 53) u)) u)) :pattern (((_ to_fp 11 53) u)))))")
		return T{S: sx("fbits64", a.S), Sort: bvSort(64)}
	case "fbits32":
		a := arg(0, sF32)
		g.declare("fbits32", "(declare-fun fbits32 ((_ FloatingPoint 8 24)) (_ BitVec 32))\n(assert (forall ((f (_ FloatingPoint 8 24))) (! (=> (not (fp.isNaN f)) (= ((_ to_fp 8 24) (fbits32 f)) f)) :pattern ((fbits32 f)))))\n(assert (forall ((u (_ BitVec 32))) (! (=> (not (fp.isNaN ((_ to_fp 8 24) u))) (= (fbits32 ((_ to_fp 8 24) u)) u)) :pattern (((_ to_fp 8 24) u)))))")
		return T{S: sx("fbits32", a.S), Sort: bvSort(32)}
	case "float64frombits":
		a := arg(0, bvSort(64))
		return T{S: sx("(_ to_fp 11 53)", a.S), Sort: sF64, Signed: true}
	case "float32frombits":
		a := arg(0, bvSort(32))
		return T{S: sx("(_ to_fp 8 24)", a.S), Sort: sF32, Signed: true}
	case "store":
		a := arg(0, "")
		ks, vs := arraySorts(a.Sort)
		return T{S: sx("store", a.S, arg(1, ks).S, arg(2, vs).S), Sort: a.Sort}
	case "int", "mathint", "byte", "uint8", "int8", "uint16", "int16", "uint32", "int32", "uint64", "int64", "uint", "float64", "float32":
		// conversion
		a := arg(0, "")
		s := g.sortOfSpecType(name)
		sg := specTypeSigned(name)
		if cv, ok := g.constExpr(n.Args[0]); ok {
			if t, ok := g.litOfSort(cv, s); ok {
				t.Signed = sg
				return t
			}
		}
		t, ok := g.convert(a, s, sg)
		if !ok {
			return fail("cannot convert %s to %s", a.Sort, name)
		}
		return T{S: t, Sort: s, Signed: sg}
	}
	if name == "atmostone" {
		var bs []string
		for i := range n.Args {
			bs = append(bs, arg(i, sBool).S)
		}
		var parts []string
		for i := range bs {
			for j := i + 1; j < len(bs); j++ {
				parts = append(parts, not(and(bs[i], bs[j])))
			}
		}
		return T{S: and(parts...), Sort: sBool}
	}
	// alias of a pure extern: an uninterpreted function of its arguments
	if ct, idx := g.w.aliasExtern(name); ct != nil {
		sig := ct.Opts["sig"]
		k := strings.Index(sig, ":")
		if k < 0 {
			return fail("extern %s has an alias but no sig=args:results", ct.Key)
		}
		var argTypes, resTypes []string
		if sig[:k] != "" {
			argTypes = strings.Split(sig[:k], ",")
		}
		resTypes = strings.Split(sig[k+1:], ",")
		if len(n.Args) != len(argTypes) || idx >= len(resTypes) {
			return fail("alias %s: wrong number of arguments or results", name)
		}
		var as, ss []string
		for i, at := range argTypes {
			srt := g.sortOfSpecType(at)
			a := arg(i, srt)
			if a.Sort != srt {
				return fail("alias %s: argument %d has sort %s, want %s", name, i+1, a.Sort, srt)
			}
			as = append(as, a.S)
			ss = append(ss, srt)
		}
		rs := g.sortOfSpecType(resTypes[idx])
		fn := fmt.Sprintf("pure.%s.%d", mangle(ct.Key), idx)
		g.ensureSort(rs)
		g.declare(fn+strings.Join(ss, ","), fmt.Sprintf("(declare-fun %s (%s) %s)", fn, strings.Join(ss, " "), rs))
		term := fn
		if len(as) > 0 {
			term = sx(fn, as...)
		}
		return T{S: term, Sort: rs, Signed: specTypeSigned(resTypes[idx])}
	}
	// spec function
	if sf := g.w.lookupSpec(g.unit, name); sf != nil {
		return g.callSpec(e, sf, n, c)
	}
	return fail("unknown function %s", name)
}

// ---------------------------------------------------------------- spec functions

// Spec functions are emitted as define-fun[-rec]; the heap components (and ghosts) they read
// become extra leading parameters.
type specInst struct {
	name  string
	comps []string
	ret   T
}

func (g *gen) callSpec(e *env, sf *SpecFn, n *ast.CallExpr, c *Clause) T {
	inst := g.instSpec(sf)
	if len(n.Args) != len(sf.Params) {
		panic(specErr{fmt.Sprintf("%s:%d: %s expects %d arguments", c.File, c.Line, sf.Name, len(sf.Params))})
	}
	var args []string
	for _, cm := range inst.comps {
		args = append(args, e.comp(cm))
	}
	for i, p := range sf.Params {
		a := g.specExpr(e, n.Args[i], g.sortOfSpecType(p.Type), c)
		if a.Sort != g.sortOfSpecType(p.Type) {
			panic(specErr{fmt.Sprintf("%s:%d: argument %d of %s has sort %s, want %s", c.File, c.Line, i+1, sf.Name, a.Sort, g.sortOfSpecType(p.Type))})
		}
		args = append(args, a.S)
	}
	r := inst.ret
	if len(args) == 0 {
		r.S = inst.name
	} else {
		r.S = sx(inst.name, args...)
	}
	return r
}

func (g *gen) instSpec(sf *SpecFn) *specInst {
	key := "spec:" + sf.Unit.Name + "." + sf.Name
	if si, ok := g.w.specInsts[g][key]; ok {
		return si
	}
	if g.w.specInsts[g] == nil {
		g.w.specInsts[g] = map[string]*specInst{}
	}
	rs := g.sortOfSpecType(sf.Ret)
	si := &specInst{name: "sp." + sf.Name, ret: T{Sort: rs, Signed: specTypeSigned(sf.Ret)}}
	g.w.specInsts[g][key] = si
	// which heap components does the body read?  Translate once with placeholder comps.
	se := &env{g: g, vars: map[string]T{}, state: map[string]string{}, useInit: false}
	var ps []string
	for _, p := range sf.Params {
		s := g.sortOfSpecType(p.Type)
		var gt types.Type
		if p.Type == "[]byte" {
			gt = types.NewSlice(types.Typ[types.Uint8])
		}
		se.vars[p.Name] = T{S: p.Name + "!p", Sort: s, Signed: specTypeSigned(p.Type), GoT: gt}
		ps = append(ps, fmt.Sprintf("(%s!p %s)", p.Name, s))
	}
	// bind every known component to a parameter name; find which are used afterwards
	// (two passes: the first pass may create components lazily)
	var body string
	for pass := 0; pass < 2; pass++ {
		se.state = map[string]string{}
		for _, cm := range g.compList {
			se.state[cm] = "C!" + strings.ReplaceAll(cm, "@", "_")
		}
		if sf.Rec {
			// recursive calls need to know the comps: assume all heap comps read so far
			si.comps = nil
			for _, cm := range g.compList {
				if strings.HasPrefix(cm, "H") && strings.Contains(body, "C!"+cm) {
					si.comps = append(si.comps, cm)
				}
			}
		}
		body = g.specExpr(se, sf.Body.Expr, rs, sf.Body).S
	}
	si.comps = nil
	var cps []string
	for _, cm := range g.compList {
		ph := "C!" + strings.ReplaceAll(cm, "@", "_")
		if strings.Contains(body, ph) {
			si.comps = append(si.comps, cm)
			cps = append(cps, fmt.Sprintf("(%s %s)", ph, g.compSort[cm]))
		}
	}
	kw := "define-fun"
	if sf.Rec {
		kw = "define-fun-rec"
	}
	g.emit(fmt.Sprintf("(%s %s (%s) %s %s)", kw, si.name, strings.Join(append(cps, ps...), " "), rs, body))
	return si
}

var _ = strconv.Itoa


// specGoType resolves a composite type expression of the spec language (map[K]V, []T, *T, universe types)
func (g *gen) specGoType(e ast.Expr) types.Type {
	switch t := e.(type) {
	case *ast.StarExpr:
		if x := g.specGoType(t.X); x != nil {
			return types.NewPointer(x)
		}
	case *ast.MapType:
		k, v := g.specGoType(t.Key), g.specGoType(t.Value)
		if k != nil && v != nil {
			return types.NewMap(k, v)
		}
	case *ast.ArrayType:
		if t.Len == nil {
			if x := g.specGoType(t.Elt); x != nil {
				return types.NewSlice(x)
			}
		}
	case *ast.Ident:
		if obj, ok := types.Universe.Lookup(t.Name).(*types.TypeName); ok {
			return obj.Type()
		}
		if pk := g.pkgTypes(); pk != nil {
			if obj, ok := pk.Scope().Lookup(t.Name).(*types.TypeName); ok {
				return obj.Type()
			}
		}
	case *ast.SelectorExpr:
		return g.w.lookupGoType(exprString(t))
	}
	return nil
}
