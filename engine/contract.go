package main

// Contract files: /repo/<pkg>/zz_contracts_verif.go  (//go:build verif, comment-only).
// Every line of interest starts with "//@".  See DESIGN.md §3.2 for the language.

import (
	"fmt"
	"go/ast"
	"go/parser"
	"os"
	"path/filepath"
	"regexp"
	"strconv"
	"strings"
)

type Clause struct {
	Text string
	Expr ast.Expr
	Line int
	File string
}

type LoopSpec struct {
	Ranges     []*Clause    // the slice expression the loop ranges over (checked at loop entry)
	Every      []*EverySpec // calls that every completed iteration must have made
	Invariants []*Clause
	Decreases  *Clause
}

type EverySpec struct {
	Callee string
	Ord    int
	Text   string
}

type Tolerate struct {
	Callee string // short callee name as written
	Ord    int    // ordinal among calls to that callee in the function (source order), 1-based; 0 = all
	When   *Clause
	Reason string
	Used   bool
}

type SpecParam struct {
	Name string
	Type string // textual type
}

type AssertSpec struct {
	Used   bool
	Callee string // anchor: before call#Ord of Callee
	Ord    int
	After  bool
	Cl     *Clause
}

// Contract of one function (func or extern) or lemma.
type Contract struct {
	Kind      string // "func", "extern", "lemma"
	Key       string // function key as written (relative to package for func)
	FullKey   string // canonical key (pkgname-qualified)
	Pkg       string // package path of the contract file
	PkgName   string
	Unit      *Unit
	Params    []SpecParam // extern/lemma: declared parameter names (types optional for extern)
	Results   []string
	Requires  []*Clause
	Ensures   []*Clause
	Modifies  []string
	Loops     map[int]*LoopSpec
	Tolerates []*Tolerate
	Asserts   []*AssertSpec
	Tags      []string
	Known     []*Known
	Pure      bool // extern: result is an uninterpreted function of its arguments
	NoDefault bool // extern: not subject to the unit's default call effect (errflow)
	Fresh     bool
	Protocols []string
	File      string
	Line      int
	Opts      map[string]string
}

type Known struct {
	ID        string
	Clause    string // obligation suffix it applies to, e.g. "ensures[2]"
	Excluding *Clause
}

type SpecFn struct {
	Name   string
	Params []SpecParam
	Ret    string
	Body   *Clause
	Unit   *Unit
	Rec    bool
}

type Ghost struct {
	Name string
	Type string
	Unit *Unit
}

// Discipline: closures that (transitively) call Callee may only be used as the argument of Registrar.
type Discipline struct {
	Callee    string
	Registrar string
}

// FieldDiscipline: a struct field that only the listed functions of the package may touch.
type FrozenDiscipline struct {
	Registrar string
	Tags      []string
}

type FieldDiscipline struct {
	Struct, Field string
	Allowed       []string
	Tags          []string
	WriteOnly     bool
}

// ReachDiscipline: no function reachable (static call graph of the loaded packages) from the roots
// calls one of the forbidden callees.
type ReachDiscipline struct {
	Roots, Forbidden []string
	Tags             []string
}

// DetDiscipline: the listed functions are compositions of deterministic operations: every call goes to an
// allowed (deterministic, assumed or listed) callee, and they contain no map iteration, no channel
// operation, no goroutine and no select.
type DetDiscipline struct {
	Funcs, Allowed []string
	Tags           []string
}

type Unit struct {
	DetDisciplines   []DetDiscipline
	ReachDisciplines []ReachDiscipline
	FrozenDisciplines []FrozenDiscipline
	SortDisciplines  [][]string // tags of each "discipline sort-less-over-sorted"
	FieldDisciplines []FieldDiscipline
	Disciplines []Discipline
	Name     string
	Pkg      string
	PkgName  string
	IntMath  bool
	Strict   bool
	NoPanic  bool
	ErrFlow  bool // default call effect: failed' = failed || err != nil
	Opts     map[string]string
	Ghosts   []*Ghost
	Specs    map[string]*SpecFn
	SpecList []*SpecFn
	Axioms   []*Clause
	File     string
}

type applyStmt struct {
	proto string
	keys  []string
	unit  *Unit
	file  string
	line  int
}

type ContractSet struct {
	Protocols map[string]*Contract
	applies   []applyStmt
	Units     []*Unit
	Funcs     map[string]*Contract // by FullKey
	Externs   map[string]*Contract // by FullKey (may contain '*' globs)
	ExternGlb []*Contract
	Lemmas    []*Contract
	All       []*Contract
}

var kwRe = regexp.MustCompile(`^(unit|ghost|spec|extern|func|lemma|protocol|apply|discipline|load-for|requires|ensures|modifies|loop|tolerates|assert|tags|known|pure|nodefault|fresh|axiom|opt)\b`)

func parseExprClause(text, file string, line int) (*Clause, error) {
	t := strings.ReplaceAll(text, "==>", "&& _IMPLIES_ &&") // placeholder, fixed below
	_ = t
	src := rewriteImplies(text)
	e, err := parser.ParseExpr(src)
	if err != nil {
		return nil, fmt.Errorf("%s:%d: cannot parse %q: %v", file, line, text, err)
	}
	return &Clause{Text: text, Expr: e, Line: line, File: file}, nil
}

// rewriteImplies turns "a ==> b" (lowest precedence, right assoc) into implies(a, b),
// respecting parentheses and commas at the same nesting depth.
func rewriteImplies(s string) string {
	// find top-level (depth 0 relative to the current sub-expression) "==>"
	var rec func(string) string
	rec = func(s string) string {
		// first rewrite inside parentheses/brackets
		var out strings.Builder
		depth := 0
		start := -1
		for i := 0; i < len(s); i++ {
			c := s[i]
			if c == '"' { // skip string literal
				j := i + 1
				for j < len(s) && s[j] != '"' {
					if s[j] == '\\' {
						j++
					}
					j++
				}
				if depth == 0 {
					out.WriteString(s[i:min(j+1, len(s))])
				}
				i = j
				continue
			}
			if c == '(' || c == '[' {
				if depth == 0 {
					start = i
				}
				depth++
				continue
			}
			if c == ')' || c == ']' {
				depth--
				if depth == 0 {
					inner := s[start+1 : i]
					// split on top-level commas
					parts := splitTop(inner, ',')
					for k := range parts {
						parts[k] = rec(parts[k])
					}
					out.WriteByte(s[start])
					out.WriteString(strings.Join(parts, ","))
					out.WriteByte(c)
				}
				continue
			}
			if depth == 0 {
				out.WriteByte(c)
			}
		}
		t := out.String()
		// now t has no "==>" inside nested groups; split at top-level ==>
		idx := indexTop(t, "==>")
		if idx < 0 {
			return t
		}
		return "implies(" + t[:idx] + ", " + rec(t[idx+3:]) + ")"
	}
	return rec(s)
}

func indexTop(s, pat string) int {
	depth := 0
	for i := 0; i+len(pat) <= len(s); i++ {
		switch s[i] {
		case '(', '[':
			depth++
		case ')', ']':
			depth--
		case '"':
			j := i + 1
			for j < len(s) && s[j] != '"' {
				if s[j] == '\\' {
					j++
				}
				j++
			}
			i = j
			continue
		}
		if depth == 0 && strings.HasPrefix(s[i:], pat) {
			return i
		}
	}
	return -1
}

func splitTop(s string, sep byte) []string {
	var parts []string
	depth := 0
	last := 0
	for i := 0; i < len(s); i++ {
		switch s[i] {
		case '(', '[', '{':
			depth++
		case ')', ']', '}':
			depth--
		case '"':
			j := i + 1
			for j < len(s) && s[j] != '"' {
				if s[j] == '\\' {
					j++
				}
				j++
			}
			i = j
			continue
		}
		if depth == 0 && i < len(s) && s[i] == sep {
			parts = append(parts, s[last:i])
			last = i + 1
		}
	}
	parts = append(parts, s[last:])
	return parts
}

func parseParams(s string) []SpecParam {
	s = strings.TrimSpace(s)
	if s == "" {
		return nil
	}
	var ps []SpecParam
	for _, p := range splitTop(s, ',') {
		p = strings.TrimSpace(p)
		f := strings.Fields(p)
		if len(f) == 1 {
			ps = append(ps, SpecParam{Name: f[0]})
		} else if len(f) >= 2 {
			ps = append(ps, SpecParam{Name: f[0], Type: strings.Join(f[1:], " ")})
		}
	}
	// Go-style "a, b int": propagate types backwards
	for i := len(ps) - 2; i >= 0; i-- {
		if ps[i].Type == "" && ps[i+1].Type != "" {
			ps[i].Type = ps[i+1].Type
		}
	}
	return ps
}

var headRe = regexp.MustCompile(`^(\S+?)(\((.*?)\))?(\s*->\s*\((.*)\))?\s*$`)

func parseHead(rest string) (key string, params []SpecParam, results []string, err error) {
	// key may itself contain parentheses: (*T).M or (pkg.I).M
	rest = strings.TrimSpace(rest)
	// split off "-> (...)"
	if i := strings.Index(rest, "->"); i >= 0 {
		r := strings.TrimSpace(rest[i+2:])
		r = strings.TrimPrefix(r, "(")
		r = strings.TrimSuffix(r, ")")
		for _, x := range strings.Split(r, ",") {
			x = strings.TrimSpace(x)
			if x != "" {
				results = append(results, strings.Fields(x)[0])
			}
		}
		rest = strings.TrimSpace(rest[:i])
	}
	// key: optional "defer "/"rundefer " prefix; if it then starts with '(' the receiver group comes first
	k := 0
	for _, pre := range []string{"defer ", "rundefer "} {
		if strings.HasPrefix(rest, pre) {
			k = len(pre)
		}
	}
	if strings.HasPrefix(rest[k:], "(") {
		k += strings.Index(rest[k:], ")") + 1
	}
	j := strings.Index(rest[k:], "(")
	if j < 0 {
		return rest, nil, results, nil
	}
	key = rest[:k+j]
	ps := rest[k+j:]
	if !strings.HasSuffix(ps, ")") {
		return "", nil, nil, fmt.Errorf("bad head %q", rest)
	}
	params = parseParams(ps[1 : len(ps)-1])
	return key, params, results, nil
}

func LoadContracts(repo string, pkgDirs []string) (*ContractSet, error) {
	cs := &ContractSet{Funcs: map[string]*Contract{}, Externs: map[string]*Contract{}}
	for _, d := range pkgDirs {
		files, _ := filepath.Glob(filepath.Join(repo, d, "zz_contracts*_verif.go"))
		for _, f := range files {
			if err := cs.parseFile(f, d); err != nil {
				return nil, err
			}
		}
	}
	// apply protocols: their clauses are added to the (possibly new) contract of each listed function
	for _, a := range cs.applies {
		p := cs.Protocols[a.unit.Name+"/"+a.proto]
		if p == nil {
			return nil, fmt.Errorf("%s:%d: unknown protocol %s", a.file, a.line, a.proto)
		}
		for _, k := range a.keys {
			full := qualifyKey(k, a.unit.PkgName)
			ct := cs.Funcs[full]
			if ct == nil {
				ct = &Contract{Kind: "func", Key: k, FullKey: full, Pkg: a.unit.Pkg, PkgName: a.unit.PkgName, Unit: a.unit,
					Loops: map[int]*LoopSpec{}, File: a.file, Line: a.line, Opts: map[string]string{}}
				cs.Funcs[full] = ct
				cs.All = append(cs.All, ct)
			}
			ct.Requires = append(ct.Requires, p.Requires...)
			ct.Ensures = append(ct.Ensures, p.Ensures...)
			for _, m := range p.Modifies {
				dup := false
				for _, x := range ct.Modifies {
					dup = dup || x == m
				}
				if !dup {
					ct.Modifies = append(ct.Modifies, m)
				}
			}
			for _, t := range p.Tags {
				if !hasTag(ct.Tags, t) {
					ct.Tags = append(ct.Tags, t)
				}
			}
			ct.Protocols = append(ct.Protocols, p.Key)
		}
	}
	return cs, nil
}

func (cs *ContractSet) parseFile(file, relDir string) error {
	data, err := os.ReadFile(file)
	if err != nil {
		return err
	}
	lines := strings.Split(string(data), "\n")
	pkgName := ""
	for _, l := range lines {
		if strings.HasPrefix(l, "package ") {
			pkgName = strings.TrimSpace(strings.TrimPrefix(l, "package "))
			break
		}
	}
	pkgPath := "github.com/sourcenetwork/defradb/" + filepath.ToSlash(relDir)
	// gather logical statements
	type stmt struct {
		kw, rest string
		line     int
	}
	var stmts []stmt
	for i, l := range lines {
		t := strings.TrimSpace(l)
		if !strings.HasPrefix(t, "//@") {
			continue
		}
		body := strings.TrimSpace(strings.TrimPrefix(t, "//@"))
		if body == "" || strings.HasPrefix(body, "//") {
			continue
		}
		// strip trailing " // comment" (only when preceded by two spaces to avoid cutting strings)
		if k := strings.Index(body, "  // "); k >= 0 {
			body = strings.TrimSpace(body[:k])
		}
		if m := kwRe.FindString(body); m != "" {
			stmts = append(stmts, stmt{m, strings.TrimSpace(body[len(m):]), i + 1})
		} else if len(stmts) > 0 {
			stmts[len(stmts)-1].rest += " " + body
		} else {
			return fmt.Errorf("%s:%d: continuation without statement", file, i+1)
		}
	}
	var unit *Unit
	var cur *Contract
	for _, s := range stmts {
		switch s.kw {
		case "unit":
			f := strings.Fields(s.rest)
			unit = &Unit{Name: f[0], Pkg: pkgPath, PkgName: pkgName, Specs: map[string]*SpecFn{}, File: file, Opts: map[string]string{}}
			for _, o := range f[1:] {
				switch o {
				case "int=math":
					unit.IntMath = true
				case "int=bv64":
				case "strict":
					unit.Strict = true
				case "nopanic":
					unit.NoPanic = true
				case "errflow":
					unit.ErrFlow = true
				default:
					if k := strings.Index(o, "="); k > 0 {
						unit.Opts[o[:k]] = o[k+1:]
					} else {
						unit.Opts[o] = "1"
					}
				}
			}
			cs.Units = append(cs.Units, unit)
			cur = nil
		case "load-for":
		case "ghost":
			if unit == nil {
				return fmt.Errorf("%s:%d: ghost outside unit", file, s.line)
			}
			f := strings.Fields(s.rest)
			if len(f) < 2 {
				return fmt.Errorf("%s:%d: ghost needs name and type", file, s.line)
			}
			unit.Ghosts = append(unit.Ghosts, &Ghost{Name: f[0], Type: strings.Join(f[1:], " "), Unit: unit})
		case "axiom":
			c, err := parseExprClause(s.rest, file, s.line)
			if err != nil {
				return err
			}
			unit.Axioms = append(unit.Axioms, c)
		case "spec":
			if unit == nil {
				return fmt.Errorf("%s:%d: spec outside unit", file, s.line)
			}
			eq := indexTop(s.rest, " = ")
			if eq < 0 {
				return fmt.Errorf("%s:%d: spec without '='", file, s.line)
			}
			head, body := s.rest[:eq], s.rest[eq+3:]
			op := strings.Index(head, "(")
			cp := strings.LastIndex(head, ")")
			if op < 0 || cp < op {
				return fmt.Errorf("%s:%d: bad spec head", file, s.line)
			}
			sf := &SpecFn{Name: strings.TrimSpace(head[:op]), Params: parseParams(head[op+1 : cp]), Ret: strings.TrimSpace(head[cp+1:]), Unit: unit}
			c, err := parseExprClause(body, file, s.line)
			if err != nil {
				return err
			}
			sf.Body = c
			sf.Rec = regexp.MustCompile(`\b` + regexp.QuoteMeta(sf.Name) + `\(`).MatchString(body)
			unit.Specs[sf.Name] = sf
			unit.SpecList = append(unit.SpecList, sf)
		case "discipline":
			if unit != nil && strings.HasPrefix(s.rest, "deterministic ") {
				// discipline deterministic f1, f2 allow c1, c2 tags C13
				rest := strings.TrimPrefix(s.rest, "deterministic ")
				var tags []string
				if k := strings.Index(rest, " tags "); k >= 0 {
					tags = strings.Fields(rest[k+6:])
					rest = rest[:k]
				}
				k := strings.Index(rest, " allow ")
				if k < 0 {
					return fmt.Errorf("%s:%d: discipline deterministic f1, f2 allow c1, c2 tags T", file, s.line)
				}
				dd := DetDiscipline{Tags: tags}
				for _, a := range splitTop(rest[:k], ',') {
					if a = strings.TrimSpace(a); a != "" {
						dd.Funcs = append(dd.Funcs, qualifyKey(a, pkgName))
					}
				}
				for _, a := range splitTop(rest[k+7:], ',') {
					if a = strings.TrimSpace(a); a != "" {
						dd.Allowed = append(dd.Allowed, a)
					}
				}
				unit.DetDisciplines = append(unit.DetDisciplines, dd)
				continue
			}
			if unit != nil && strings.HasPrefix(s.rest, "no-reach ") {
				// discipline no-reach from f1, f2 to c1, c2 tags C19
				rest := strings.TrimPrefix(s.rest, "no-reach ")
				var tags []string
				if k := strings.Index(rest, " tags "); k >= 0 {
					tags = strings.Fields(rest[k+6:])
					rest = rest[:k]
				}
				k := strings.Index(rest, " to ")
				if !strings.HasPrefix(rest, "from ") || k < 0 {
					return fmt.Errorf("%s:%d: discipline no-reach from f1, f2 to c1, c2 tags T", file, s.line)
				}
				rd := ReachDiscipline{Tags: tags}
				for _, a := range splitTop(rest[5:k], ',') {
					if a = strings.TrimSpace(a); a != "" {
						rd.Roots = append(rd.Roots, qualifyKey(a, pkgName))
					}
				}
				for _, a := range splitTop(rest[k+4:], ',') {
					if a = strings.TrimSpace(a); a != "" {
						rd.Forbidden = append(rd.Forbidden, a)
					}
				}
				unit.ReachDisciplines = append(unit.ReachDisciplines, rd)
				continue
			}
			if unit != nil && strings.HasPrefix(s.rest, "sort-less-over-sorted") {
				// discipline sort-less-over-sorted tags T: the comparison closure handed to sort.Slice /
				// sort.SliceStable indexes the slice that is being sorted (when it captures slices at all, one of
				// them is the sorted one)
				rest := strings.TrimPrefix(s.rest, "sort-less-over-sorted")
				var tags []string
				if k := strings.Index(rest, "tags "); k >= 0 {
					tags = strings.Fields(rest[k+5:])
				}
				unit.SortDisciplines = append(unit.SortDisciplines, tags)
				continue
			}
			if unit != nil && strings.HasPrefix(s.rest, "captures-frozen ") {
				// discipline captures-frozen <registrar> tags T: a variable captured by a closure that is handed to
				// the registrar is not assigned again after the registration (the closure runs later, at commit)
				rest := strings.TrimPrefix(s.rest, "captures-frozen ")
				var tags []string
				if k := strings.Index(rest, " tags "); k >= 0 {
					tags = strings.Fields(rest[k+6:])
					rest = rest[:k]
				}
				unit.FrozenDisciplines = append(unit.FrozenDisciplines, FrozenDiscipline{strings.TrimSpace(rest), tags})
				continue
			}
			if unit != nil && (strings.HasPrefix(s.rest, "field ") || strings.HasPrefix(s.rest, "field-write ")) {
				// discipline field <Struct>.<field> only-in f1, f2, ... tags C06 C14
				// discipline field-write ...: only stores to (or address escapes of) the field are restricted
				writeOnly := strings.HasPrefix(s.rest, "field-write ")
				rest := strings.TrimPrefix(strings.TrimPrefix(s.rest, "field-write "), "field ")
				var tags []string
				if k := strings.Index(rest, " tags "); k >= 0 {
					tags = strings.Fields(rest[k+6:])
					rest = rest[:k]
				}
				k := strings.Index(rest, " only-in ")
				if k < 0 || !strings.Contains(rest[:k], ".") {
					return fmt.Errorf("%s:%d: discipline field S.f only-in f1, f2 tags T", file, s.line)
				}
				sf := strings.SplitN(strings.TrimSpace(rest[:k]), ".", 2)
				var allowed []string
				for _, a := range splitTop(rest[k+9:], ',') {
					if a = strings.TrimSpace(a); a != "" {
						allowed = append(allowed, qualifyKey(a, pkgName))
					}
				}
				unit.FieldDisciplines = append(unit.FieldDisciplines, FieldDiscipline{sf[0], sf[1], allowed, tags, writeOnly})
				continue
			}
			f := strings.Fields(s.rest)
			if unit == nil || len(f) != 4 || f[0] != "closure-calling" || f[2] != "only-arg-of" {
				return fmt.Errorf("%s:%d: discipline closure-calling <callee> only-arg-of <registrar>", file, s.line)
			}
			unit.Disciplines = append(unit.Disciplines, Discipline{f[1], f[3]})
		case "apply":
			k := strings.Index(s.rest, ":")
			if k < 0 || unit == nil {
				return fmt.Errorf("%s:%d: apply <Protocol>: key, key, ...", file, s.line)
			}
			var keys []string
			for _, x := range splitTop(s.rest[k+1:], ',') {
				if x = strings.TrimSpace(x); x != "" {
					keys = append(keys, x)
				}
			}
			cs.applies = append(cs.applies, applyStmt{strings.TrimSpace(s.rest[:k]), keys, unit, file, s.line})
			cur = nil
		case "protocol":
			if unit == nil {
				return fmt.Errorf("%s:%d: protocol outside unit", file, s.line)
			}
			cur = &Contract{Kind: "protocol", Key: strings.TrimSpace(s.rest), Pkg: pkgPath, PkgName: pkgName, Unit: unit,
				Loops: map[int]*LoopSpec{}, File: file, Line: s.line, Opts: map[string]string{}}
			if cs.Protocols == nil {
				cs.Protocols = map[string]*Contract{}
			}
			cs.Protocols[unit.Name+"/"+cur.Key] = cur
		case "func", "extern", "lemma":
			if unit == nil {
				return fmt.Errorf("%s:%d: %s outside unit", file, s.line, s.kw)
			}
			key, params, results, err := parseHead(s.rest)
			if err != nil {
				return fmt.Errorf("%s:%d: %v", file, s.line, err)
			}
			cur = &Contract{Kind: s.kw, Key: key, Pkg: pkgPath, PkgName: pkgName, Unit: unit, Params: params, Results: results,
				Loops: map[int]*LoopSpec{}, File: file, Line: s.line, Opts: map[string]string{}}
			switch s.kw {
			case "func":
				cur.FullKey = qualifyKey(key, pkgName)
				if prev, dup := cs.Funcs[cur.FullKey]; dup {
					// several blocks for one function are merged (one block per property reads better)
					if len(prev.Results) == 0 {
						prev.Results = cur.Results
					}
					cur = prev
					continue
				}
				cs.Funcs[cur.FullKey] = cur
			case "extern":
				cur.FullKey = key
				if strings.Contains(key, "*") && !strings.HasPrefix(key, "(*") || strings.Count(key, "*") > 1 {
					cs.ExternGlb = append(cs.ExternGlb, cur)
				} else if strings.HasSuffix(key, "*") {
					cs.ExternGlb = append(cs.ExternGlb, cur)
				} else {
					cs.Externs[unit.Name+"/"+key] = cur
				}
			case "lemma":
				cur.FullKey = "lemma:" + pkgName + "." + key
				cs.Lemmas = append(cs.Lemmas, cur)
			}
			cs.All = append(cs.All, cur)
		case "requires", "ensures":
			if cur == nil {
				return fmt.Errorf("%s:%d: %s outside contract", file, s.line, s.kw)
			}
			c, err := parseExprClause(s.rest, file, s.line)
			if err != nil {
				return err
			}
			if s.kw == "requires" {
				cur.Requires = append(cur.Requires, c)
			} else {
				cur.Ensures = append(cur.Ensures, c)
			}
		case "modifies":
			for _, m := range strings.Split(s.rest, ",") {
				if m = strings.TrimSpace(m); m != "" {
					cur.Modifies = append(cur.Modifies, m)
				}
			}
		case "pure":
			cur.Pure = true
		case "nodefault":
			cur.NoDefault = true
		case "fresh":
			cur.Fresh = true
		case "opt":
			for _, o := range strings.Fields(s.rest) {
				if k := strings.Index(o, "="); k > 0 {
					cur.Opts[o[:k]] = o[k+1:]
				} else {
					cur.Opts[o] = "1"
				}
			}
		case "loop":
			f := strings.Fields(s.rest)
			if len(f) < 3 {
				return fmt.Errorf("%s:%d: loop <k> invariant|decreases <expr>", file, s.line)
			}
			k, err := strconv.Atoi(f[0])
			if err != nil {
				return fmt.Errorf("%s:%d: loop ordinal: %v", file, s.line, err)
			}
			ls := cur.Loops[k]
			if ls == nil {
				ls = &LoopSpec{}
				cur.Loops[k] = ls
			}
			if f[1] == "every-iteration" {
				// loop <k> every-iteration call#<j> <callee>: an iteration that reaches the back edge made that call
				var j int
				if len(f) != 4 || !strings.HasPrefix(f[2], "call#") {
					return fmt.Errorf("%s:%d: loop <k> every-iteration call#<j> <callee>", file, s.line)
				}
				if _, err := fmt.Sscanf(f[2], "call#%d", &j); err != nil {
					return fmt.Errorf("%s:%d: %v", file, s.line, err)
				}
				ls.Every = append(ls.Every, &EverySpec{Callee: f[3], Ord: j, Text: "every iteration of loop " + f[0] + " calls " + f[3] + " (" + f[2] + ")"})
				break
			}
			etext := strings.TrimSpace(s.rest[strings.Index(s.rest, f[1])+len(f[1]):])
			c, err := parseExprClause(etext, file, s.line)
			if err != nil {
				return err
			}
			if f[1] == "ranges" {
				ls.Ranges = append(ls.Ranges, c)
			} else if f[1] == "invariant" {
				ls.Invariants = append(ls.Invariants, c)
			} else if f[1] == "decreases" {
				ls.Decreases = c
			} else {
				return fmt.Errorf("%s:%d: loop: expected invariant|decreases|ranges|every-iteration", file, s.line)
			}
		case "tolerates":
			// tolerates call#<k> <callee> [when <expr>] "<reason>"
			rest := s.rest
			reason := ""
			if q := strings.Index(rest, "\""); q >= 0 {
				reason = strings.Trim(rest[q:], "\" ")
				rest = strings.TrimSpace(rest[:q])
			}
			var when *Clause
			if w := strings.Index(rest, " when "); w >= 0 {
				c, err := parseExprClause(rest[w+6:], file, s.line)
				if err != nil {
					return err
				}
				when = c
				rest = strings.TrimSpace(rest[:w])
			}
			f := strings.Fields(rest)
			if len(f) != 2 || !strings.HasPrefix(f[0], "call#") {
				return fmt.Errorf("%s:%d: tolerates call#<k> <callee> [when e] \"reason\"", file, s.line)
			}
			ord := 0
			if f[0] != "call#*" {
				ord, err = strconv.Atoi(strings.TrimPrefix(f[0], "call#"))
				if err != nil {
					return fmt.Errorf("%s:%d: %v", file, s.line, err)
				}
			}
			if reason == "" {
				return fmt.Errorf("%s:%d: tolerates needs a reason", file, s.line)
			}
			cur.Tolerates = append(cur.Tolerates, &Tolerate{Callee: f[1], Ord: ord, When: when, Reason: reason})
		case "assert":
			// assert before|after call#k callee: expr
			f := strings.Fields(s.rest)
			if len(f) < 4 || (f[0] != "before" && f[0] != "after") || !strings.HasPrefix(f[1], "call#") {
				return fmt.Errorf("%s:%d: assert before|after call#k callee: expr", file, s.line)
			}
			ord, err := strconv.Atoi(strings.TrimPrefix(f[1], "call#"))
			if err != nil {
				return fmt.Errorf("%s:%d: %v", file, s.line, err)
			}
			callee := strings.TrimSuffix(f[2], ":")
			ci := strings.Index(s.rest, ":")
			// skip a colon inside the callee? callee names have no colon
			c, err := parseExprClause(strings.TrimSpace(s.rest[ci+1:]), file, s.line)
			if err != nil {
				return err
			}
			cur.Asserts = append(cur.Asserts, &AssertSpec{Callee: callee, Ord: ord, After: f[0] == "after", Cl: c})
		case "tags":
			cur.Tags = append(cur.Tags, strings.Fields(s.rest)...)
		case "known":
			// known <id> <clause-suffix> excluding <expr>
			f := strings.Fields(s.rest)
			if len(f) < 4 || f[2] != "excluding" {
				return fmt.Errorf("%s:%d: known <id> <clause> excluding <expr>", file, s.line)
			}
			et := strings.TrimSpace(s.rest[strings.Index(s.rest, " excluding ")+11:])
			c, err := parseExprClause(et, file, s.line)
			if err != nil {
				return err
			}
			cur.Known = append(cur.Known, &Known{ID: f[0], Clause: f[1], Excluding: c})
		}
	}
	return nil
}

// qualifyKey: "Name" -> "pkg.Name"; "(*T).M" -> "(*pkg.T).M"; "(T).M" -> "(pkg.T).M"
func qualifyKey(key, pkg string) string {
	if strings.HasPrefix(key, "(*") {
		return "(*" + pkg + "." + key[2:]
	}
	if strings.HasPrefix(key, "(") {
		return "(" + pkg + "." + key[1:]
	}
	return pkg + "." + key
}

func min(a, b int) int {
	if a < b {
		return a
	}
	return b
}
