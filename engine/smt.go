package main

import (
	"fmt"
	"go/types"
	"regexp"
	"strings"
)

// T is an SMT term with its sort and (for bit-vectors) the signedness of the Go type it came from.
type T struct {
	S      string
	Sort   string
	Signed bool
	GoT    types.Type // optional: Go type (for field selection in spec expressions)
	AddrOf bool       // the term is the address of a variable that lives in memory (deref on use)
}

const (
	sBool  = "Bool"
	sInt   = "Int"
	sErr   = "Err"
	sStr   = "Str"
	sIface = "Iface"
	sSlice = "Slice"
	sFn    = "Fn"
	sF64   = "(_ FloatingPoint 11 53)"
	sF32   = "(_ FloatingPoint 8 24)"
	sPtr   = "Int"
)

func bvSort(w int) string { return fmt.Sprintf("(_ BitVec %d)", w) }

func isBV(s string) bool { return strings.HasPrefix(s, "(_ BitVec ") }
func isFP(s string) bool { return strings.HasPrefix(s, "(_ FloatingPoint ") }

func bvWidth(s string) int {
	var w int
	fmt.Sscanf(s, "(_ BitVec %d)", &w)
	return w
}

func bvLit(v uint64, w int) string {
	if w%4 == 0 {
		mask := ^uint64(0)
		if w < 64 {
			mask = (uint64(1) << uint(w)) - 1
		}
		return fmt.Sprintf("#x%0*x", w/4, v&mask)
	}
	return fmt.Sprintf("(_ bv%d %d)", v, w)
}

func sx(op string, args ...string) string {
	return "(" + op + " " + strings.Join(args, " ") + ")"
}

func and(args ...string) string {
	var a []string
	for _, x := range args {
		if x == "true" {
			continue
		}
		if x == "false" {
			return "false"
		}
		a = append(a, x)
	}
	if len(a) == 0 {
		return "true"
	}
	if len(a) == 1 {
		return a[0]
	}
	return sx("and", a...)
}

func or(args ...string) string {
	var a []string
	for _, x := range args {
		if x == "false" {
			continue
		}
		if x == "true" {
			return "true"
		}
		a = append(a, x)
	}
	if len(a) == 0 {
		return "false"
	}
	if len(a) == 1 {
		return a[0]
	}
	return sx("or", a...)
}

func not(a string) string {
	if a == "true" {
		return "false"
	}
	if a == "false" {
		return "true"
	}
	return sx("not", a)
}

func implies(a, b string) string {
	if a == "true" {
		return b
	}
	if a == "false" || b == "true" {
		return "true"
	}
	return sx("=>", a, b)
}

var identRe = regexp.MustCompile(`[^A-Za-z0-9_]`)

func mangle(s string) string {
	s = strings.ReplaceAll(s, "github.com/sourcenetwork/defradb/", "")
	s = strings.ReplaceAll(s, "github.com/sourcenetwork/", "")
	s = strings.ReplaceAll(s, "*", "P")
	s = strings.ReplaceAll(s, "[]", "Sl")
	return identRe.ReplaceAllString(s, "_")
}

func sortID(s string) string {
	switch {
	case isBV(s):
		return fmt.Sprintf("bv%d", bvWidth(s))
	case s == sF64:
		return "f64"
	case s == sF32:
		return "f32"
	}
	return mangle(s)
}
