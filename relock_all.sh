#!/bin/bash
# relock every claimed property from the current tree, then run every quick check and validate evidence
cd /verif; export GOFLAGS=-mod=mod GOPROXY=off
props=$(python3 -c "import json; print(' '.join(c['property_id'] for c in json.load(open('/verif/MANIFEST.json'))['checks']))")
for p in $props; do ./bin/govc check -lock $p 2>&1 | grep -E "ERROR|UNDECIDED" | cut -c1-220; done
# hooks.source_commits = the guarded ("verif:") commits of /repo
python3 - <<'PY'
import json,subprocess
log=subprocess.run(['git','-C','/repo','log','--format=%h %s'],capture_output=True,text=True).stdout.splitlines()
m=json.load(open('/verif/MANIFEST.json'))
m['hooks']['source_commits']=list(reversed([l.split()[0] for l in log if l.split(' ',1)[1].startswith('verif:')]))
json.dump(m,open('/verif/MANIFEST.json','w'),indent=1)
PY
python3 lockdiff.py HEAD
bad=0
for p in $props; do out=$(./check $p quick 2>&1); rc=$?; echo "$out" | tail -1; if [ $rc -ne 0 ] || echo "$out" | grep -q "^VIOLATION"; then echo "!!! $p rc=$rc"; bad=1; fi; done
python3-vt - <<'PY'
import json,jsonschema
m=json.load(open('/verif/MANIFEST.json')); s=json.load(open('/root/.vp/EVIDENCE.schema.json'))
for c in m['checks']:
    e=json.load(open('/verif/'+c['evidence_file'])); jsonschema.validate(e,s)
    assert e['level']==c['level_claimed']['category'],(c['property_id'],e['level'])
    if e['level']=='proof': assert e['coverage']['obligations']==e['coverage']['discharged']>0,c['property_id']
print('evidence ok')
PY
exit $bad
